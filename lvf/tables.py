"""Table-driven stand-ins written against lerax's public extension points.

* TableEnv      - an AbstractEnv whose components are look-ups in arrays (a finite MDP);
                  its configuration record `cfg` is, verbatim, the `cfg` of spec/MDP.tla.
* templates     - a *template* fixes everything that ends up in static (non-array) leaves or in
                  closures of the real wrapper classes (stack structure, bounds, tables of Transform*
                  wrappers); the MDP tables and TimeLimit limits are array leaves and are swapped with
                  eqx.tree_at, so that one XLA compilation serves thousands of random MDPs.
* projections   - real pytrees -> the abstract JSON state of the specification.

Units: actions / box observations are integers in quarter units in cfg (value = q / 4.0), rewards
are plain integers.  States are 0-based here and 1-based in cfg / TLA+.
"""
from __future__ import annotations

import copy
import random
from typing import ClassVar

import equinox as eqx
import jax
import jax.numpy as jnp
import jax.random as jr
import numpy as np

from lerax.env import AbstractEnv, AbstractEnvState
from lerax.space import Box, Discrete
from lerax import wrapper as W

NS_MAX = 5          # proper states (+1 poison row)
NA_MAX = 5          # proper actions (+1 poison column)
NI_MAX = 3
NO_DISC = 6         # observation codes of the discrete variant
INF = 1000000
POISON_R = -99


class TableState(AbstractEnvState):
    s: jax.Array


class TableEnv(AbstractEnv):
    name: ClassVar[str] = "TableEnv"
    action_space: Discrete | Box
    observation_space: Discrete | Box
    T: jax.Array
    R: jax.Array
    Term: jax.Array
    ITrunc: jax.Array
    Init: jax.Array
    nInit: jax.Array
    Obs: jax.Array
    Mask: jax.Array | None
    nA: jax.Array
    alo: jax.Array
    astep: jax.Array
    akind: str = eqx.field(static=True)
    okind: str = eqx.field(static=True)

    def __init__(self, cfg: dict):
        a = arrays_of(cfg)
        self.akind, self.okind = cfg["akind"], cfg["okind"]
        self.T, self.R, self.Term, self.ITrunc = a["T"], a["R"], a["Term"], a["ITrunc"]
        self.Init, self.nInit, self.Obs, self.Mask = a["Init"], a["nInit"], a["Obs"], a["Mask"]
        self.nA, self.alo, self.astep = a["nA"], a["alo"], a["astep"]
        if self.akind == "disc":
            self.action_space = Discrete(cfg["nA"])
        else:
            self.action_space = Box(cfg["alo"] / 4.0, float("inf") if cfg.get("aopen") else cfg["ahi"] / 4.0, shape=())
        if self.okind == "disc":
            self.observation_space = Discrete(cfg["nO"])
        else:
            self.observation_space = Box(cfg["olo"] / 4.0, cfg["ohi"] / 4.0, shape=(1,))

    def base_idx(self, action):
        if self.akind == "disc":
            a = jnp.asarray(action).astype(int)
            return jnp.where((a >= 0) & (a < self.nA), a, self.nA)
        a = jnp.asarray(action, dtype=float)
        k = (a - self.alo) / self.astep
        kr = jnp.round(k)
        ok = (k == kr) & (kr >= 0) & (kr < self.nA)
        return jnp.where(ok, kr, self.nA).astype(int)

    def initial(self, *, key):
        return TableState(self.Init[jr.randint(key, (), 0, self.nInit)])

    def action_mask(self, state, *, key):
        if self.Mask is None:
            return None
        return self.Mask[state.s]

    def transition(self, state, action, *, key):
        return TableState(self.T[state.s, self.base_idx(action)])

    def observation(self, state, *, key):
        if self.okind == "disc":
            return self.Obs[state.s]
        return (self.Obs[state.s].astype(float) / 4.0)[None]

    def reward(self, state, action, next_state, *, key):
        return self.R[state.s, self.base_idx(action), next_state.s]

    def terminal(self, state, *, key):
        return self.Term[state.s]

    def truncate(self, state):
        return self.ITrunc[state.s]

    def state_info(self, state):
        return {"s": state.s}

    def transition_info(self, state, action, next_state):
        return {"idx": self.base_idx(action), "s": state.s, "s2": next_state.s}

    def default_renderer(self):
        raise NotImplementedError

    def render(self, state, renderer):
        raise NotImplementedError


def arrays_of(cfg: dict) -> dict:
    """cfg (1-based, ragged) -> fixed-shape arrays (0-based) for TableEnv."""
    nS, nA = cfg["nS"], cfg["nA"]
    T = np.full((NS_MAX + 1, NA_MAX + 1), nS, dtype=np.int32)
    R = np.full((NS_MAX + 1, NA_MAX + 1, NS_MAX + 1), float(POISON_R), dtype=np.float32)
    Term = np.zeros((NS_MAX + 1,), dtype=bool)
    ITr = np.zeros((NS_MAX + 1,), dtype=bool)
    Obs = np.zeros((NS_MAX + 1,), dtype=np.int32)
    for s in range(nS + 1):
        for k in range(nA + 1):
            T[s, k] = cfg["T"][s][k] - 1
            for s2 in range(nS + 1):
                R[s, k, s2] = cfg["R"][s][k][s2]
        Term[s] = cfg["Term"][s]
        ITr[s] = cfg["ITrunc"][s]
        Obs[s] = cfg["Obs"][s]
    Init = np.zeros((NI_MAX,), dtype=np.int32)
    for i in range(NI_MAX):
        Init[i] = cfg["Init"][i % len(cfg["Init"])] - 1
    out = dict(T=jnp.asarray(T), R=jnp.asarray(R), Term=jnp.asarray(Term), ITrunc=jnp.asarray(ITr),
               Init=jnp.asarray(Init), nInit=jnp.asarray(len(cfg["Init"]), dtype=jnp.int32), Obs=jnp.asarray(Obs),
               nA=jnp.asarray(nA, dtype=jnp.int32),
               alo=jnp.asarray(cfg["alo"] / 4.0, dtype=jnp.float32),
               astep=jnp.asarray(max(cfg["astep"], 1) / 4.0, dtype=jnp.float32))
    if cfg["hasMask"]:
        nmask = cfg["nA"]
        Mk = np.ones((NS_MAX + 1, nmask), dtype=bool)
        for s in range(nS + 1):
            for k in range(nmask):
                Mk[s, k] = cfg["Mask"][s][k]
        out["Mask"] = jnp.asarray(Mk)
    else:
        out["Mask"] = None
    return out


# ------------------------------------------------------------------------------------------------
# wrapper records
# ------------------------------------------------------------------------------------------------
def wrec(kind, n=0, lo=0, hi=0, m=1, c=0, tab=None):
    return {"kind": kind, "n": n, "lo": lo, "hi": hi, "m": m, "c": c, "tab": list(tab) if tab else [0]}


def apply_wrapper(env, w: dict, aspace: dict, ospace: dict):
    """Construct the real wrapper for record w around env."""
    k = w["kind"]
    if k == "Identity":
        return W.Identity(env)
    if k == "TimeLimit":
        return W.TimeLimit(env, w["n"])
    if k == "ClipAction":
        return W.ClipAction(env)
    if k == "RescaleAction":
        return W.RescaleAction(env, jnp.asarray(w["lo"] / 4.0), jnp.asarray(w["hi"] / 4.0))
    if k == "TransformAction":
        if aspace["kind"] == "disc":
            tab = jnp.asarray(w["tab"], dtype=jnp.int32)
            return W.TransformAction(env, lambda a, tab=tab: tab[a], env.action_space)
        c = w["c"] / 4.0
        sp = Box(aspace["lo"] / 4.0 - c, aspace["hi"] / 4.0 - c, shape=())
        return W.TransformAction(env, lambda a, c=c: a + c, sp)
    if k == "ClipObservation":
        return W.ClipObservation(env)
    if k == "RescaleObservation":
        return W.RescaleObservation(env, jnp.asarray(w["lo"] / 4.0), jnp.asarray(w["hi"] / 4.0))
    if k == "FlattenObservation":
        return W.FlattenObservation(env)
    if k == "TransformObservation":
        if ospace["kind"] == "disc":
            tab = jnp.asarray(w["tab"], dtype=jnp.int32)
            return W.TransformObservation(env, lambda o, tab=tab: tab[o], Discrete(w["n"]))
        c = w["c"] / 4.0
        sp = Box(ospace["lo"] / 4.0 + c, ospace["hi"] / 4.0 + c, shape=(1,))
        return W.TransformObservation(env, lambda o, c=c: o + c, sp)
    if k == "ClipReward":
        return W.ClipReward(env, float(w["lo"]), float(w["hi"]))
    if k == "TransformReward":
        m, c = float(w["m"]), float(w["c"])
        return W.TransformReward(env, lambda r, m=m, c=c: m * r + c)
    raise ValueError(k)


def spaces_after(w: dict, aspace: dict, ospace: dict):
    """Advertised spaces one level further out (used for *input generation* and compatibility only)."""
    a, o = dict(aspace), dict(ospace)
    k = w["kind"]
    if k == "ClipAction":
        a = {"kind": "box", "lo": -INF, "hi": INF}
    elif k == "RescaleAction":
        a = {"kind": "box", "lo": w["lo"], "hi": w["hi"]}
    elif k == "TransformAction" and a["kind"] == "box":
        a = {"kind": "box", "lo": a["lo"] - w["c"], "hi": a["hi"] - w["c"]}
    elif k == "RescaleObservation":
        o["lo"], o["hi"] = w["lo"], w["hi"]
    elif k == "FlattenObservation":
        o = {"kind": "box", "lo": -INF, "hi": INF, "n": o.get("n", 0)}
    elif k == "TransformObservation":
        if o["kind"] == "disc":
            o["n"] = w["n"]
        else:
            o["lo"], o["hi"] = o["lo"] + w["c"], o["hi"] + w["c"]
    return a, o


def base_spaces(cfg):
    return ({"kind": cfg["akind"], "lo": cfg["alo"], "hi": INF if cfg.get("aopen") else cfg["ahi"]},
            {"kind": cfg["okind"], "lo": cfg["olo"], "hi": cfg["ohi"], "n": cfg["nO"]})


def build_env(cfg: dict):
    """The real lerax environment described by cfg: TableEnv under the real wrapper classes."""
    env = TableEnv(cfg)
    a, o = base_spaces(cfg)
    for w in cfg["stack"]:
        env = apply_wrapper(env, w, a, o)
        a, o = spaces_after(w, a, o)
    return env


def outer_spaces(cfg):
    a, o = base_spaces(cfg)
    for w in cfg["stack"]:
        a, o = spaces_after(w, a, o)
    return a, o


def template_key(cfg: dict) -> str:
    """Everything that is static / captured in closures: same key <=> array leaves may be swapped."""
    st = [(w["kind"], w["lo"], w["hi"], w["m"], w["c"], tuple(w["tab"]), w["n"] if w["kind"] != "TimeLimit" else 0)
          for w in cfg["stack"]]
    return repr((cfg["akind"], cfg["okind"], cfg["alo"], cfg["ahi"], bool(cfg.get("aopen")), cfg["olo"], cfg["ohi"],
                 cfg["nA"] if cfg["akind"] == "disc" else 0, cfg["nO"], cfg["hasMask"], st))


class EnvCache:
    """template -> one real env object; instantiate(cfg) swaps array leaves only (no recompilation)."""

    def __init__(self):
        self.templates = {}

    def get(self, cfg: dict):
        k = template_key(cfg)
        if k not in self.templates:
            from .core import relieve_jit
            relieve_jit()          # every new template brings new compiled programs; stay below vm.max_map_count
            self.templates[k] = build_env(cfg)
            return self.templates[k]
        return retarget(self.templates[k], cfg)


def _chain(env):
    out = [env]
    while hasattr(out[-1], "env"):
        out.append(out[-1].env)
    return out  # outermost first, base env last


def retarget(template, cfg: dict):
    """Copy of `template` whose TableEnv tables and TimeLimit limits are those of cfg."""
    a = arrays_of(cfg)
    depth = len(cfg["stack"])

    def base_of(e):
        for _ in range(depth):
            e = e.env
        return e

    names = ["T", "R", "Term", "ITrunc", "Init", "nInit", "Obs", "nA", "alo", "astep"] + (["Mask"] if cfg["hasMask"] else [])
    env = eqx.tree_at(lambda e: [getattr(base_of(e), n) for n in names], template, [a[n] for n in names])
    for i, w in enumerate(cfg["stack"]):
        if w["kind"] == "TimeLimit":
            hops = depth - 1 - i

            def tl_of(e, hops=hops):
                for _ in range(hops):
                    e = e.env
                return e.max_episode_steps

            env = eqx.tree_at(tl_of, env, jnp.asarray(w["n"], dtype=jnp.int32))
    return env


# ------------------------------------------------------------------------------------------------
# projection of real environment states
# ------------------------------------------------------------------------------------------------
def proj_env_state(state, depth: int) -> dict:
    """real (wrapped) state -> {"s": 1-based table state, "cnt": [counter per stack position, innermost first]}"""
    cnt = []
    st = state
    for _ in range(depth):
        cnt.append(int(st.step_count) if hasattr(st, "step_count") else 0)
        st = st.env_state
    cnt.reverse()
    return {"s": int(st.s) + 1, "cnt": cnt}


def q4(x) -> int:
    """float -> integer number of quarters; raises if not exact (a stand-in arithmetic error, not a verdict)."""
    v = float(np.asarray(x).reshape(-1)[0]) * 4.0
    r = round(v)
    if abs(v - r) > 1e-4:
        return 99990000 + int(abs(v) * 16) % 9999      # an 'inexact' token the specification can never produce
    return int(r)


def obs_code(cfg_okind_outer: str, obs) -> int:
    """observation as the integer the specification uses (code for disc, quarter units for box)."""
    if cfg_okind_outer == "disc":
        return int(np.asarray(obs))
    return q4(obs)


def make_state(env, cfg: dict, s: int, cnt: list):
    """A wrapped state object with table state s (1-based) and the given counters (innermost first)."""
    st = env.initial(key=jr.key(0))
    depth = len(cfg["stack"])

    def inner(x, hops):
        for _ in range(hops):
            x = x.env_state
        return x

    st = eqx.tree_at(lambda x: inner(x, depth).s, st, jnp.asarray(s - 1, dtype=jnp.int32))
    for i, w in enumerate(cfg["stack"]):
        if w["kind"] == "TimeLimit":
            hops = depth - 1 - i
            st = eqx.tree_at(lambda x, hops=hops: inner(x, hops).step_count, st, jnp.asarray(cnt[i], dtype=jnp.int32))
    return st


# ------------------------------------------------------------------------------------------------
# random configurations
# ------------------------------------------------------------------------------------------------
def gen_mdp(rng: random.Random, akind="disc", okind="disc", mask=False, nS=None, nA=None, static=None) -> dict:
    """Random MDP tables.  `static` (a cfg) pins everything that is static in the real objects
    (kinds, bounds, grid, mask presence) so that the result fits the same template."""
    nS = nS or rng.randint(2, NS_MAX)
    if static is not None:
        akind, okind, mask, nA = static["akind"], static["okind"], static["hasMask"], static["nA"]
        alo, ahi, astep = static["alo"], static["ahi"], static["astep"]
    elif akind == "disc":
        nA = nA or 3
        alo, ahi, astep = 0, nA - 1, 1
    else:
        nA = nA or rng.choice([3, 5])
        astep = rng.choice([2, 4])                # 0.5 or 1.0
        alo = rng.choice([-4, 0, -8]) if astep == 4 else rng.choice([-2, 0, -4])
        alo = -((nA - 1) * astep) // 2 if rng.random() < 0.6 else alo
        ahi = alo + (nA - 1) * astep
    P = nS + 1
    T = [[rng.randint(1, nS) for _ in range(nA)] + [P] for _ in range(nS)] + [[P] * (nA + 1)]
    R = [[[rng.choice([-2, -1, 0, 1, 2, 3]) if (s < nS and k < nA and s2 < nS) else POISON_R
           for s2 in range(nS + 1)] for k in range(nA + 1)] for s in range(nS + 1)]
    Term = [rng.random() < 0.25 for _ in range(nS)] + [False]
    ITr = [rng.random() < 0.1 for _ in range(nS)] + [False]
    nonterm = [s + 1 for s in range(nS) if not Term[s] and not ITr[s]]
    if not nonterm:
        Term[0] = False
        ITr[0] = False
        nonterm = [1]
    Init = rng.sample(nonterm, min(len(nonterm), rng.randint(1, NI_MAX)))
    if okind == "disc":
        nO = NO_DISC
        Obs = [rng.randint(0, nO - 1) for _ in range(nS)] + [nO - 1]
        if rng.random() < 0.6:
            Obs = list(range(nS)) + [nO - 1]
        olo, ohi = 0, nO - 1
    else:
        nO = 0
        olo, ohi = rng.choice([(-4, 4), (0, 8), (-8, 8)]) if static is None else (static["olo"], static["ohi"])
        Obs = [rng.randint(olo // 2 - 1, ohi // 2 + 1) * 2 for _ in range(nS)] + [ohi]
        if rng.random() < 0.5:
            Obs = [min(max(o, olo), ohi) for o in Obs]
    cfg = dict(nS=nS, nA=nA, T=T, R=R, Term=Term, ITrunc=ITr, Init=Init, Obs=Obs,
               hasMask=bool(mask and akind == "disc"), Mask=[[True] * nA for _ in range(nS + 1)],
               akind=akind, alo=alo, ahi=ahi, astep=astep, okind=okind, olo=olo, ohi=ohi, nO=nO, stack=[])
    # about a quarter of the box action spaces are declared bounded below only (a function of the drawn values, so that the random
    # stream - and with it every other configuration - is unchanged)
    cfg["aopen"] = bool(static.get("aopen", False)) if static is not None else bool(akind == "box" and (alo // 2 + nS + nA) % 4 == 0)
    if cfg["hasMask"]:
        for s in range(nS):
            m = [rng.random() < 0.6 for _ in range(nA)]
            if not any(m):
                m[rng.randrange(nA)] = True
            cfg["Mask"][s] = m
    return cfg


ALL_KINDS = ["Identity", "TimeLimit", "ClipAction", "RescaleAction", "TransformAction", "ClipObservation",
             "RescaleObservation", "FlattenObservation", "TransformObservation", "ClipReward", "TransformReward"]


def compatible(kind: str, a: dict, o: dict) -> bool:
    # "bounded" for the affine rescales: an unbounded side shifted by a Transform* wrapper (INF - c) is still unbounded, and the
    # specification's 32-bit integers would overflow on (a - lo) * (hi - lo) there
    fin_a = a["kind"] == "box" and a["lo"] > -INF // 2 and a["hi"] < INF // 2
    fin_o = o["kind"] == "box" and o["lo"] > -INF // 2 and o["hi"] < INF // 2 and o["hi"] > o["lo"]
    if kind == "ClipAction":
        return a["kind"] == "box"
    if kind == "RescaleAction":
        return fin_a           # affine rescale is only defined for bounded boxes (property text)
    if kind == "ClipObservation":
        return o["kind"] == "box"
    if kind == "RescaleObservation":
        return fin_o
    return True


def gen_wrapper(rng: random.Random, kind: str, a: dict, o: dict, nA: int) -> dict:
    if kind == "TimeLimit":
        return wrec(kind, n=rng.randint(1, 5))
    if kind == "RescaleAction":
        width = a["hi"] - a["lo"]
        nw = rng.choice([width, 2 * width, width // 2 if width % 2 == 0 and width >= 4 else width])
        lo = rng.choice([-nw // 2 if nw % 2 == 0 else 0, 0, -4])
        return wrec(kind, lo=lo, hi=lo + nw)
    if kind == "TransformAction":
        if a["kind"] == "disc":
            perm = list(range(nA))
            rng.shuffle(perm)
            return wrec(kind, tab=perm)
        return wrec(kind, c=rng.choice([-4, 2, 4]))
    if kind == "RescaleObservation":
        width = o["hi"] - o["lo"]
        nw = rng.choice([width, 2 * width, width // 2 if width % 4 == 0 else width])
        lo = rng.choice([-nw // 2 if nw % 2 == 0 else 0, 0, -4])
        return wrec(kind, lo=lo, hi=lo + nw)
    if kind == "TransformObservation":
        if o["kind"] == "disc":
            n = o["n"]
            return wrec(kind, n=n + 1, tab=[rng.randint(0, n) for _ in range(n)])
        return wrec(kind, c=rng.choice([-4, 4, 8]))
    if kind == "ClipReward":
        lo = rng.choice([-1, 0, -2])
        return wrec(kind, lo=lo, hi=lo + rng.choice([1, 2, 3]))
    if kind == "TransformReward":
        return wrec(kind, m=rng.choice([2, -1, 1, 3]), c=rng.choice([0, 1, -2]))
    return wrec(kind)


def gen_stack(rng: random.Random, cfg: dict, depth: int, kinds=None, force_tl: float = 0.0) -> list:
    a, o = base_spaces(cfg)
    stack = []
    kinds = kinds or ALL_KINDS
    for _ in range(depth):
        # (one affine rescale per signal and stack: the parameters of a rescale are chosen so that every grid value has an exact
        # image; the image grid of a first rescale no longer guarantees that for a second one)
        ok = [k for k in kinds if compatible(k, a, o) and not (k.startswith("Rescale") and any(w["kind"] == k for w in stack))]
        if not ok:
            break
        k = "TimeLimit" if rng.random() < force_tl else rng.choice(ok)
        w = gen_wrapper(rng, k, a, o, cfg["nA"])
        stack.append(w)
        a, o = spaces_after(w, a, o)
    return stack


def with_stack(cfg: dict, stack: list) -> dict:
    c = copy.deepcopy(cfg)
    c["stack"] = copy.deepcopy(stack)
    return c


def candidate_actions(cfg: dict, oob: bool = True) -> list:
    """Outer action values worth trying (input generation only): images of the base grid under the
    action wrappers, the outer bounds, and - where the outer space is unbounded - values outside the
    base bounds."""
    if cfg["akind"] == "disc":
        vals = set(range(cfg["nA"]))
        return sorted(vals)
    vals = {cfg["alo"] + k * cfg["astep"] for k in range(cfg["nA"])}
    extra = {cfg["alo"] - cfg["astep"], cfg["ahi"] + cfg["astep"], cfg["alo"] - 2 * cfg["astep"]}
    a, o = base_spaces(cfg)
    cur = set(vals)
    out_extra = set(extra)
    for w in cfg["stack"]:
        k = w["kind"]
        if k == "RescaleAction":
            def f(x, a=a, w=w):
                num = (x - a["lo"]) * (w["hi"] - w["lo"])
                den = (a["hi"] - a["lo"])
                return w["lo"] + num // den if num % den == 0 else None
            cur = {f(x) for x in cur} - {None}
            out_extra = {f(x) for x in out_extra} - {None}
        elif k == "TransformAction" and a["kind"] == "box":
            cur = {x - w["c"] for x in cur}
            out_extra = {x - w["c"] for x in out_extra}
        a, o = spaces_after(w, a, o)
    res = set(cur)
    if a["lo"] > -INF:
        res |= {a["lo"], a["hi"]}
        res = {x for x in res if a["lo"] <= x <= a["hi"]}
    elif oob:
        res |= out_extra
    return sorted(res)


def exact_dones_limit(big_reward_seen: bool) -> int:
    """How many episode ends the float32 EMA of the logging statistics stays exact for (fixed point, SD = 4^8): the k-th update has
    denominator 4^k, so |return| * 4^k must fit 24 bits.  8 for the small rewards of the tables; 4 once a transition has paid the
    poison reward (-99 per step: an out-of-grid action reached the base environment)."""
    return 4 if big_reward_seen else 8


BIG_REWARD = 50


def vary(rng: random.Random, cfg: dict) -> dict:
    """New random tables and time limits for the same template as cfg."""
    c = gen_mdp(rng, static=cfg)
    c["stack"] = copy.deepcopy(cfg["stack"])
    for w in c["stack"]:
        if w["kind"] == "TimeLimit":
            w["n"] = rng.randint(1, 5)
    return c


# ------------------------------------------------------------------------------------------------
# tabular policies (users of the public policy interfaces)
# ------------------------------------------------------------------------------------------------
from lerax.policy import AbstractActorCriticPolicy, AbstractPolicyState  # noqa: E402

P_TAB = 7           # policy tables are indexed by observation % P_TAB
NO_LOGP = -25.0     # log-prob reported for an action that is not one of the candidates (= -100 quarters)


class TPState(AbstractPolicyState):
    n: jax.Array    # calls since reset


def _pidx(okind: str, obs):
    if okind == "disc":
        o = jnp.asarray(obs).astype(int)
    else:
        o = jnp.round(jnp.asarray(obs, dtype=float).reshape(-1)[0] * 4.0).astype(int)
    return jnp.mod(o, P_TAB)


class TableACPolicy(AbstractActorCriticPolicy):
    """Actor-critic policy whose value / candidate actions / log-probs / entropy are table look-ups."""
    name: ClassVar[str] = "TableACPolicy"
    action_space: Discrete | Box
    observation_space: Discrete | Box
    V: jax.Array          # (P,)
    Raw: jax.Array        # (P, K)  int (disc) / float (box)
    LogP: jax.Array       # (P, K)
    Ent: jax.Array        # (P,)
    akind: str = eqx.field(static=True)
    okind: str = eqx.field(static=True)

    def __init__(self, env, cfg: dict):
        asp, osp = outer_spaces(cfg)
        self.akind, self.okind = asp["kind"], osp["kind"]
        self.action_space, self.observation_space = env.action_space, env.observation_space
        self.V = jnp.asarray(cfg["V"], dtype=jnp.float32)
        if self.akind == "disc":
            self.Raw = jnp.asarray(cfg["Raw"], dtype=jnp.int32)
        else:
            self.Raw = jnp.asarray(cfg["Raw"], dtype=jnp.float32) / 4.0
        self.LogP = jnp.asarray(cfg["LogP"], dtype=jnp.float32) / 4.0
        self.Ent = jnp.asarray(cfg.get("Ent", [0] * P_TAB), dtype=jnp.float32) / 4.0

    def reset(self, *, key):
        return TPState(jnp.asarray(0, dtype=jnp.int32))

    def _choose(self, p, key, action_mask):
        cand = self.Raw[p]
        K = cand.shape[0]
        if action_mask is not None and self.akind == "disc":
            m = jnp.asarray(action_mask)
            ok = m[jnp.clip(cand, 0, m.shape[0] - 1)] & (cand >= 0) & (cand < m.shape[0])
        else:
            ok = jnp.ones((K,), dtype=bool)
            m = None
        any_ok = ok.any()
        w = jnp.where(any_ok, ok, jnp.ones_like(ok)).astype(float)
        if key is None:
            k = jnp.argmax(w)
        else:
            k = jr.choice(key, K, p=w / w.sum())
        a, lp = cand[k], self.LogP[p, k]
        if m is not None:
            a = jnp.where(any_ok, a, jnp.argmax(m).astype(cand.dtype))
            lp = jnp.where(any_ok, lp, NO_LOGP)
        return a, lp

    def __call__(self, state, observation, *, key=None, action_mask=None):
        a, _ = self._choose(_pidx(self.okind, observation), key, action_mask)
        return TPState(state.n + 1), a

    def action_and_value(self, state, observation, *, key, action_mask=None):
        p = _pidx(self.okind, observation)
        a, lp = self._choose(p, key, action_mask)
        return TPState(state.n + 1), a, self.V[p], lp

    def evaluate_action(self, state, observation, action, *, action_mask=None):
        p = _pidx(self.okind, observation)
        match = self.Raw[p] == jnp.asarray(action).astype(self.Raw.dtype)
        lp = jnp.where(match.any(), self.LogP[p, jnp.argmax(match)], NO_LOGP)
        return state, self.V[p], lp, self.Ent[p]

    def value(self, state, observation):
        return state, self.V[_pidx(self.okind, observation)]


def gen_ac_policy(rng: random.Random, cfg: dict, K: int = 3) -> dict:
    """Adds random tabular actor-critic tables (P, K, V, Raw, LogP, Ent) to a copy of cfg."""
    c = copy.deepcopy(cfg)
    asp, _ = outer_spaces(cfg)
    if asp["kind"] == "disc":
        pool = list(range(cfg["nA"]))
        K = min(K, 2)
    else:
        pool = candidate_actions(cfg, oob=True)
        if asp["lo"] > -INF:
            pool = sorted(set(pool) | {asp["lo"] - 4, asp["hi"] + 4, asp["hi"] + 2})
        while len(pool) < K:
            pool.append(pool[-1] + 4)
    c["P"], c["K"] = P_TAB, K
    c["V"] = [rng.randint(-3, 6) for _ in range(P_TAB)]
    c["Raw"] = [rng.sample(pool, K) for _ in range(P_TAB)]
    c["LogP"] = [rng.sample(range(-12, 0), K) for _ in range(P_TAB)]
    c["Ent"] = [rng.randint(0, 6) for _ in range(P_TAB)]
    return c
