"""Driver: real lerax.buffer.ReplayBuffer (add / sample, single and stacked rings) -> ReplayRing traces."""
from __future__ import annotations

import equinox as eqx
import jax
import jax.numpy as jnp
import jax.random as jr
import numpy as np

from lerax.buffer import ReplayBuffer
from lerax.space import Box, Dict, Discrete, Tuple

from . import tables as tb

NA = 4


def spaces(kind: str):
    if kind == "flat":
        return Box(-8.0, 8.0, shape=(2,)), Discrete(NA)
    if kind == "dict":
        return Dict({"a": Box(-4.0, 4.0, shape=(2,)), "b": Discrete(7)}), Discrete(NA)
    if kind == "tuple_boxact":
        return Tuple((Discrete(5), Box(-1.0, 1.0, shape=(1,)))), Box(-2.0, 2.0, shape=())
    raise ValueError(kind)


def _fill(tree, tag: int, j0: int):
    """pytree with the structure of `tree`; every leaf element gets the value tag*16 + j (distinct j per element)."""
    leaves, treedef = jax.tree.flatten(tree)
    out, j = [], j0
    for x in leaves:
        x = np.asarray(x)
        vals = np.arange(j, j + x.size).reshape(x.shape) + tag * 16
        out.append(jnp.asarray(vals.astype(x.dtype)))
        j += x.size
    return jax.tree.unflatten(treedef, out), j


def row_args(kind: str, tag: int):
    """arguments of ReplayBuffer.add for insertion `tag`: every leaf of every field carries the tag"""
    osp, asp = spaces(kind)
    obs, j = _fill(osp.canonical(), tag, 1)
    nobs, j = _fill(osp.canonical(), tag, j)
    if isinstance(asp, Discrete):
        act = jnp.asarray(tag % NA, dtype=jnp.int32)
    else:
        act = jnp.asarray((tag * 16 + j) / 4.0, dtype=jnp.float32)
    j += 1
    rew = jnp.asarray((tag * 16 + j) / 4.0, dtype=jnp.float32)
    return (obs, nobs, act, rew, jnp.asarray(tag % 2 == 1), jnp.asarray(tag % 3 == 0),
            tb.TPState(jnp.asarray(tag * 16 + j + 1, dtype=jnp.int32)), tb.TPState(jnp.asarray(tag * 16 + j + 2, dtype=jnp.int32)))


def codes(kind: str, obs, nobs, act, rew, done, timeout, st, nst) -> list:
    out = []
    for t in (obs, nobs):
        for x in jax.tree.leaves(t):
            out += [int(round(float(v))) for v in np.asarray(x).reshape(-1)]
    asp = spaces(kind)[1]
    out.append(int(np.asarray(act)) if isinstance(asp, Discrete) else int(round(float(np.asarray(act)) * 4)))
    out.append(int(round(float(np.asarray(rew)) * 4)))
    out += [bool(np.asarray(done)), bool(np.asarray(timeout)), int(np.asarray(st.n)), int(np.asarray(nst.n))]
    return out


def slot_codes(kind: str, buf, i: int) -> list:
    g = lambda t: jax.tree.map(lambda x: x[i], t)
    return codes(kind, g(buf.observations), g(buf.next_observations), buf.actions[i], buf.rewards[i], buf.dones[i],
                 buf.timeouts[i], g(buf.states), g(buf.next_states))


def ring_proj(kind: str, buf, cap: int) -> list:
    return [slot_codes(kind, buf, i) for i in range(cap)]


@eqx.filter_jit
def _add(buf, args):
    return buf.add(*args)


@eqx.filter_jit
def _vadd(buf, args):
    return jax.vmap(lambda b, a: b.add(*a))(buf, args)


def _sample(buf, B, key):
    return eqx.filter_jit(lambda b, k: b.sample(B, key=k))(buf, key)


def record_replay(kind: str, cap: int, N: int, adds: list, samples: list, seed: int, vmapped: bool = False) -> dict:
    """adds: list of ring indices (0-based), one insertion each, in order (ignored when vmapped: then it is the
    number of joint insertions); samples: list of (after_how_many_adds, B or None=all sizes)."""
    osp, asp = spaces(kind)
    mk = lambda: ReplayBuffer(cap, osp, asp, tb.TPState(jnp.asarray(0, dtype=jnp.int32)))
    empty = slot_codes(kind, mk(), 0)
    events = []
    key = jr.key(seed)
    bufs = [mk() for _ in range(N)]
    stacked = jax.tree.map(lambda *xs: jnp.stack(xs), *bufs) if vmapped else None
    counts = [0] * N

    def do_samples(n_done):
        nonlocal key
        for (after, B) in samples:
            if after != n_done:
                continue
            if vmapped:
                sb = stacked if N > 1 else jax.tree.map(lambda x: x[0], stacked)
            else:
                sb = bufs[0] if N == 1 else jax.tree.map(lambda *xs: jnp.stack(xs), *bufs)
            stored = sum(min(c, cap) for c in counts)
            sizes = [B] if B is not None else list(range(1, stored + 1))
            for b in sizes:
                if b < 1 or b > stored:
                    continue
                key, k = jr.split(key)
                batch = jax.device_get(_sample(sb, b, k))
                rows = [slot_codes(kind, batch, i) for i in range(b)]
                events.append({"ev": "sample", "B": b, "rows": rows, "e": 0, "row": [], "slots": [], "pos": 0})

    do_samples(0)
    if vmapped:
        for n in range(adds if isinstance(adds, int) else len(adds)):
            tags = [e * 1000 + counts[e] + 1 for e in range(N)]
            args = [row_args(kind, t) for t in tags]
            sargs = jax.tree.map(lambda *xs: jnp.stack(xs), *args)
            stacked = _vadd(stacked, sargs)
            host = jax.device_get(stacked)
            for e in range(N):
                counts[e] += 1
                be = jax.tree.map(lambda x: x[e], host)
                events.append({"ev": "add", "e": e + 1, "row": codes(kind, *jax.device_get(args[e])),
                               "slots": ring_proj(kind, be, cap), "pos": int(be.position), "B": 0, "rows": []})
            do_samples(n + 1)
    else:
        for n, e in enumerate(adds):
            tag = e * 1000 + counts[e] + 1
            args = row_args(kind, tag)
            bufs[e] = _add(bufs[e], args)
            counts[e] += 1
            host = jax.device_get(bufs[e])
            events.append({"ev": "add", "e": e + 1, "row": codes(kind, *jax.device_get(args)),
                           "slots": ring_proj(kind, host, cap), "pos": int(host.position), "B": 0, "rows": []})
            do_samples(n + 1)
    return {"cap": cap, "N": N, "empty": empty, "events": events,
            "meta": {"kind": kind, "vmapped": vmapped}}


def sparse_ring_probe(cap: int, stored: int, n_keys: int, seed: int) -> dict:
    """A huge ring of which only a part is written; sample(batch = number of stored rows) - the batch has to exhaust the stored
    rows - for several keys.  Whatever weight an implementation leaves on an unwritten slot competes here with the *least* lucky
    of `stored` rows on behalf of `cap - stored` slots (a leak of 1e-8 per slot shows in every second draw at cap = 2**23,
    stored = 2**20), while the small rings of the trace-validated cases would never show it."""
    from lerax.buffer import ReplayBuffer
    obs_space, act_space = Box(-8.0, 8.0, shape=()), Discrete(NA)
    buf = ReplayBuffer(cap, obs_space, act_space, None)

    @eqx.filter_jit
    def fill(b):
        def push(b, i):
            tag = (i % 7 + 1).astype(jnp.float32)           # 1..7; unwritten slots keep reward 0
            return b.add(tag, tag + 0.5, jnp.asarray(1), 100.0 + tag, False, False, None, None), None
        return jax.lax.scan(push, b, jnp.arange(stored))[0]
    buf = fill(buf)
    draw = eqx.filter_jit(lambda b, k: jnp.sum(b.sample(stored, key=k).rewards < 100.5))
    bad = [int(draw(buf, k)) for k in jr.split(jr.key(seed), n_keys)]
    return {"atoms": {"BatchExhaustingTheStoredRowsOfAHugeRingHoldsStoredRowsOnly": bool(sum(bad) == 0)},
            "meta": {"capacity": cap, "stored": stored, "batch": stored, "keys": n_keys, "draws": stored * n_keys,
                     "draws_of_unwritten_slots": int(sum(bad))}}
