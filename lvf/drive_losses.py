"""Driver for C07 / C08: real loss functions of DQN / SAC / PPO / A2C / REINFORCE on tabular inputs."""
from __future__ import annotations

import math
from typing import ClassVar

import equinox as eqx
import jax
import jax.numpy as jnp
import jax.random as jr
import numpy as np
import optax

from lerax.algorithm import A2C, DQN, PPO, REINFORCE, SAC
from lerax.buffer import ReplayBuffer, RolloutBuffer
from lerax.policy import AbstractActorCriticPolicy, AbstractQPolicy, AbstractSACPolicy
from lerax.space import Box, Discrete

from . import tables as tb


def x5(v) -> int:
    return int(round(float(v) * 100000))


# ------------------------------------------------------------------------------------------------ DQN
class TableQPolicy(AbstractQPolicy):
    name: ClassVar[str] = "TableQPolicy"
    action_space: Discrete
    observation_space: Discrete
    epsilon: float
    Q: jax.Array

    def __init__(self, Q):
        self.Q = jnp.asarray(Q, dtype=jnp.float32)
        self.observation_space = Discrete(self.Q.shape[0])
        self.action_space = Discrete(self.Q.shape[1])
        self.epsilon = 0.0

    def reset(self, *, key):
        return tb.TPState(jnp.asarray(0, dtype=jnp.int32))

    def q_values(self, state, observation):
        return state, self.Q[observation]


def replay_of(rows, nO, nA):
    buf = ReplayBuffer(len(rows), Discrete(nO), Discrete(nA), tb.TPState(jnp.asarray(0, dtype=jnp.int32)))
    st = tb.TPState(jnp.asarray(0, dtype=jnp.int32))
    for r in rows:
        buf = buf.add(jnp.asarray(r["o"] - 1), jnp.asarray(r["o2"] - 1), jnp.asarray(r["a"] - 1), float(r["r"]), r["done"], r["timeout"], st, st)
    return buf


def dqn_case(c: dict, same_object: bool) -> dict:
    """c = [rows, Qon, Qtg, g2]; the static DQN.dqn_loss / dqn_loss_grad on table policies."""
    online = TableQPolicy(c["Qon"])
    target = online if same_object else TableQPolicy(c["Qtg"])
    batch = replay_of(c["rows"], len(c["Qon"]), len(c["Qon"][0]))
    gamma = c["g2"] / 2.0
    loss, grads = DQN.dqn_loss_grad(online, batch, target, gamma)
    loss2 = DQN.dqn_loss(online, batch, target, gamma)
    g = np.asarray(grads.Q)
    leaves = jax.tree.leaves(grads)
    atoms = {"GradientHasStructureOfOnlinePolicyOnly": bool(len(leaves) == 1 and g.shape == np.asarray(online.Q).shape),
             "LossAndLossGradAgree": bool(abs(float(loss) - float(loss2)) <= 1e-6)}
    return dict(ev="dqn", c=c, loss_x=x5(loss), grad_x=[[x5(v) for v in row] for row in g], atoms=atoms)


# ------------------------------------------------------------------------------------------------ SAC
class TableSACPolicy(AbstractSACPolicy):
    name: ClassVar[str] = "TableSACPolicy"
    action_space: Box
    observation_space: Box
    theta: jax.Array        # trainable: the actor loss has a gradient
    lp: jax.Array

    def __init__(self, lp):
        self.action_space = Box(-1.0, 1.0, shape=(1,))
        self.observation_space = Box(-1.0, 1.0, shape=(3,))
        self.theta = jnp.asarray(0.5, dtype=jnp.float32)
        self.lp = jnp.asarray(lp, dtype=jnp.float32)

    def reset(self, *, key):
        return None

    def __call__(self, state, observation, *, key=None, action_mask=None):
        return None, jnp.zeros((1,)) + 0.0 * self.theta

    def action_distribution(self, state, observation):
        raise NotImplementedError

    def action_and_log_prob(self, state, observation, *, key):
        # constant next action and log-prob; theta enters with weight (theta - stop_grad(theta)) so values are exact
        z = self.theta - jax.lax.stop_gradient(self.theta)
        return None, jnp.zeros((1,)) + z, jax.lax.stop_gradient(self.lp) + z


def const_q(net, q: float):
    zero = jax.tree.map(lambda x: jnp.zeros_like(x) if eqx.is_inexact_array(x) else x, net)
    return eqx.tree_at(lambda n: n.mlp.layers[-1].bias, zero, jnp.asarray(q, dtype=jnp.float32).reshape(zero.mlp.layers[-1].bias.shape))


_SAC = {}


def sac_case(c: dict) -> dict:
    """c = [rows, q1, q2, q1t, q2t, lp (quarters), g2]; the real SAC.sac_train with constant critics and policy."""
    from lerax.algorithm.sac import SoftQNetwork
    B = len(c["rows"])
    key = (B, c["g2"])
    if key not in _SAC:
        _SAC[key] = SAC(buffer_size=B, learning_starts=0, num_envs=1, num_steps=1, batch_size=B, gamma=c["g2"] / 2.0,
                        policy_frequency=2, autotune=True, q_width_size=4, q_depth=1)
    algo = _SAC[key]
    policy = TableSACPolicy(c["lp"] / 4.0)
    mk = lambda q: const_q(SoftQNetwork(3, 1, width_size=4, depth=1, key=jr.key(0)), q / 4.0)
    qf1, qf2, qf1t, qf2t = mk(c["q1"]), mk(c["q2"]), mk(c["q1t"]), mk(c["q2t"])
    buf = ReplayBuffer(B, policy.observation_space, policy.action_space, None)
    for r in c["rows"]:
        buf = buf.add(jnp.zeros(3), jnp.zeros(3), jnp.zeros(1), float(r["r"]), r["done"], r["timeout"], None, None)
    opt_state = algo.optimizer.init(eqx.filter(policy, eqx.is_inexact_array))
    q_opt = algo.q_optimizer.init((eqx.filter(qf1, eqx.is_inexact_array), eqx.filter(qf2, eqx.is_inexact_array)))
    log_alpha = jnp.log(jnp.asarray(float(c.get("a", 1))))          # temperature alpha = c["a"] (1 or 2)
    a_opt = algo.alpha_optimizer.init(log_alpha)

    def call(it):
        return algo.sac_train(policy, opt_state, buf, qf1, qf2, qf1t, qf2t, q_opt, log_alpha, a_opt, jnp.asarray(-1.0),
                              jnp.asarray(it), key=jr.key(3))

    on = call(0)       # actor update on schedule
    off = call(1)      # gated off
    same = lambda a, b: all(np.array_equal(np.asarray(x), np.asarray(y)) for x, y in
                            zip(jax.tree.leaves(eqx.filter(a, eqx.is_array)), jax.tree.leaves(eqx.filter(b, eqx.is_array))))
    atoms = {"GatedOffIterationLeavesActorAndTemperatureUntouched": bool(same(off[0], policy) and same(off[5], log_alpha)),
             "CriticUpdateIsIndependentOfActorUpdate": bool(same((on[2], on[3], on[4]), (off[2], off[3], off[4]))),
             "ScheduledIterationMovesTheActor": bool(not same(on[0], policy)),
             "TargetCriticsAreNotOutputsOfTraining": bool(len(on) == 8)}
    return dict(ev="sac", c=c, loss_x=x5(on[7]["q_loss"]), atoms=atoms)


# ------------------------------------------------------------------------------------------------ on-policy
class TablePGPolicy(AbstractActorCriticPolicy):
    """evaluate_action returns tabulated (value, log-prob, entropy) for the sample tag stored as observation"""
    name: ClassVar[str] = "TablePGPolicy"
    action_space: Discrete
    observation_space: Discrete
    V: jax.Array
    LP: jax.Array
    ENT: jax.Array

    def __init__(self, V, LP, ENT):
        self.V, self.LP, self.ENT = (jnp.asarray(x, dtype=jnp.float32) for x in (V, LP, ENT))
        self.observation_space = Discrete(len(V))
        self.action_space = Discrete(2)

    def reset(self, *, key):
        return tb.TPState(jnp.asarray(0, dtype=jnp.int32))

    def __call__(self, state, observation, *, key=None, action_mask=None):
        return state, jnp.asarray(0)

    def action_and_value(self, state, observation, *, key, action_mask=None):
        return state, jnp.asarray(0), self.V[observation], self.LP[observation]

    def evaluate_action(self, state, observation, action, *, action_mask=None):
        return state, self.V[observation], self.LP[observation], self.ENT[observation]

    def value(self, state, observation):
        return state, self.V[observation]


def pg_inputs(c: dict, ppo: bool):
    S = c["S"]
    B = len(S)
    tags = jnp.arange(B)
    if ppo:
        lp_new = np.array([-1.0 - 0.25 * i for i in range(B)])
        lp_old = lp_new - np.array([math.log(s["rq"] / 4.0) for s in S])
    else:
        lp_new = np.array([s["lp4"] / 4.0 for s in S])
        lp_old = lp_new.copy()
    policy = TablePGPolicy([s["v4"] / 4.0 for s in S], lp_new, [s["ent4"] / 4.0 for s in S])
    buf = RolloutBuffer(observations=tags, actions=jnp.zeros(B, dtype=jnp.int32), rewards=jnp.zeros(B), dones=jnp.zeros(B, dtype=bool),
                        log_probs=jnp.asarray(lp_old, dtype=jnp.float32), values=jnp.asarray([s["vold4"] / 4.0 for s in S]),
                        states=tb.TPState(jnp.zeros(B, dtype=jnp.int32)), action_masks=None,
                        returns=jnp.asarray([s["ret4"] / 4.0 for s in S]), advantages=jnp.asarray([float(s["A"]) for s in S]))
    return policy, buf


def ppo_case(c: dict) -> dict:
    policy, buf = pg_inputs(c, True)
    args = (c["normalize"], 0.25, c["clipv"], c["cv2"] / 2.0, c["ce2"] / 2.0)
    (loss, st), grads = PPO.ppo_loss_grad(policy, buf, *args)
    g = np.asarray(grads.LP)
    return dict(ev="ppo", c=c, total_x=x5(loss), policy_x=x5(st.policy_loss), value_x=x5(st.value_loss), entropy_x=x5(st.entropy_loss),
                kl_x=x5(st.approx_kl), gsupport=[bool(abs(v) > 1e-9) for v in g],
                atoms={"StatsTotalIsTheLossMinimised": bool(abs(float(st.total_loss) - float(loss)) <= 1e-6)})


def a2c_case(c: dict) -> dict:
    policy, buf = pg_inputs(c, False)
    (loss, st), _ = A2C.a2c_loss_grad(policy, buf, c["normalize"], c["cv2"] / 2.0, c["ce2"] / 2.0)
    return dict(ev="a2c", c=c, total_x=x5(loss), policy_x=x5(st.policy_loss), value_x=x5(st.value_loss), entropy_x=x5(st.entropy_loss),
                atoms={"StatsTotalIsTheLossMinimised": bool(abs(float(st.total_loss) - float(loss)) <= 1e-6)})


def reinforce_case(c: dict) -> dict:
    policy, buf = pg_inputs(c, False)
    (loss, st), _ = REINFORCE.reinforce_loss_grad(policy, buf, c["normalize"], c["cv2"] / 2.0)
    return dict(ev="reinforce", c=c, total_x=x5(loss), policy_x=x5(st.policy_loss), value_x=x5(st.value_loss),
                atoms={"StatsTotalIsTheLossMinimised": bool(abs(float(st.total_loss) - float(loss)) <= 1e-6)})


def optim_case(max_norm: float, scale: float) -> dict:
    """One PPO.train_batch with a gradient of known norm: the first Adam moment reveals whether global-norm clipping
    preceded Adam, and the returned policy is apply_updates(policy, optimizer.update(...))."""
    algo = PPO(num_envs=1, num_steps=2, num_epochs=1, num_batches=1, max_grad_norm=max_norm, value_loss_coefficient=1.0,
               entropy_loss_coefficient=0.0, normalize_advantages=False, learning_rate=1e-2)
    c = dict(S=[dict(rq=4, A=0, v4=int(4 * scale), vold4=0, ret4=0, ent4=0, lp4=0), dict(rq=4, A=0, v4=0, vold4=0, ret4=0, ent4=0, lp4=0)],
             normalize=False, astd=1, clipv=False, cv2=2, ce2=0)
    policy, buf = pg_inputs(c, True)
    opt_state = algo.optimizer.init(eqx.filter(policy, eqx.is_inexact_array))
    new_policy, new_opt, _ = algo.train_batch(policy, opt_state, buf)
    (_, _), grads = PPO.ppo_loss_grad(policy, buf, False, algo.clip_coefficient, False, 1.0, 0.0)
    gnorm = float(optax.global_norm(grads))
    mu = None
    for leaf in jax.tree.leaves(new_opt, is_leaf=lambda x: hasattr(x, "mu")):
        if hasattr(leaf, "mu"):
            mu = leaf.mu
    mu_norm = float(optax.global_norm(mu)) / 0.1          # Adam b1 = 0.9: mu = 0.1 * clipped gradient
    upd, _ = algo.optimizer.update(grads, opt_state, eqx.filter(policy, eqx.is_inexact_array))
    expect = eqx.apply_updates(policy, upd)
    same = all(np.allclose(np.asarray(a), np.asarray(b), atol=1e-7) for a, b in
               zip(jax.tree.leaves(eqx.filter(new_policy, eqx.is_array)), jax.tree.leaves(eqx.filter(expect, eqx.is_array))))
    atoms = {"GlobalNormClippingPrecedesTheOptimiser": bool(abs(mu_norm - min(gnorm, max_norm)) <= 1e-4 * max(1.0, gnorm)),
             "UpdateIsAppliedThroughTheConfiguredOptimiser": bool(same)}
    return dict(ev="optim", c=dict(S=[], max_norm_x=x5(max_norm), gnorm_x=x5(gnorm)), atoms=atoms)
