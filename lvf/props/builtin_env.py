"""Built-in (continuous) environments with opaque dynamics: rollouts through env.reset / env.step under wrapper stacks,
recorded as EnvOpaque traces (spec/trace/Trace_EnvOpaque.tla).  Shared by
  C01 (episode-boundary relations: structural clauses + value-relation atoms),
  C02 (typing / membership atoms 'Sig*', computed by an independent numpy oracle, not by space.contains),
  C12 (eager = jit = vmap atoms 'Modes*')."""
from __future__ import annotations

import copy
import os
import math

import numpy as np

from .. import tlc, tracecheck
from ..core import Ctx, Machinery, Report, Violation

SPEC = "trace/Trace_EnvOpaque.tla"
RTOL, ATOL = 1e-5, 1e-6


# --------------------------------------------------------------------------------------------- environments
def classic_envs(ctx: Ctx) -> list:
    import diffrax
    from lerax.env.classic_control import Acrobot, CartPole, ContinuousMountainCar, MountainCar, Pendulum
    envs = [("CartPole", {}, CartPole), ("MountainCar", {}, MountainCar), ("ContinuousMountainCar", {}, ContinuousMountainCar),
            ("Acrobot", {}, Acrobot), ("Pendulum", {}, Pendulum),
            # a documented option off its default: results must still be a function of the explicit arguments in every mode
            ("Acrobot", {"torque_max_noise": 0.5}, Acrobot)]
    if ctx.thorough:
        envs += [("CartPole", {"solver": "Euler"}, CartPole), ("CartPole", {"x_threshold": 0.1}, CartPole),
                 ("Pendulum", {"solver": "Euler"}, Pendulum), ("Acrobot", {"solver": "Euler"}, Acrobot)]
    out = []
    for name, kw, cls in envs:
        k = dict(kw)
        if k.get("solver") == "Euler":
            k["solver"] = diffrax.Euler()
        out.append((name, kw, lambda cls=cls, k=k: cls(**k)))
    return out


def mujoco_envs(ctx: Ctx) -> list:
    """every MuJoCo class with default options, plus one variant per boolean observation option (include_* / exclude_*)
    with that option flipped: the declared observation space must follow the options"""
    import inspect
    from lerax.env import mujoco as mj
    names = ["Ant", "HalfCheetah", "Hopper", "Humanoid", "HumanoidStandup", "InvertedDoublePendulum", "InvertedPendulum", "Pusher",
             "Reacher", "Swimmer", "Walker2d"]
    out = []
    for n in names:
        out.append((n, {}, lambda n=n: getattr(mj, n)()))
        for pname, par in inspect.signature(getattr(mj, n).__init__).parameters.items():
            if isinstance(par.default, bool) and (pname.startswith("include_") or pname.startswith("exclude_")):
                kw = {pname: not par.default}
                out.append((n, kw, lambda n=n, kw=kw: getattr(mj, n)(**kw)))
    return out


FULL_VARIANTS = (("Hopper", "exclude_current_positions_from_observation"), ("Ant", "include_cfrc_ext_in_observation"))


def stacks_for(env, ctx: Ctx, rng) -> list:
    """wrapper stacks (lists of (kind, arg)) applicable to env"""
    from lerax.space import Box
    st = [[], [("TimeLimit", rng.choice([3, 5, 7]))]]
    box_a = isinstance(env.action_space, Box)
    if box_a:
        st.append([("ClipAction", None), ("TimeLimit", 6)])
        if np.all(np.isfinite(np.asarray(env.action_space.low))):
            st.append([("RescaleAction", None)])
    st.append([("TimeLimit", 4), ("FlattenObservation", None), ("TimeLimit", 9)])
    if isinstance(env.observation_space, Box):
        st.append([("ClipObservation", None)])
        if np.all(np.isfinite(np.asarray(env.observation_space.low))) and np.all(np.isfinite(np.asarray(env.observation_space.high))):
            st.append([("RescaleObservation", None)])
    st.append([("ClipReward", None), ("Identity", None)])
    if ctx.thorough:
        return st
    # quick tier: the bare environment plus two stacks; which two is a fixed function of the environment class (not of the seed), chosen
    # so that every wrapper kind occurs over some environment in every run
    rest = st[1:]
    want = {"CartPole": ("TimeLimit", "FlattenObservation"), "MountainCar": ("RescaleObservation", "ClipReward"),
            "ContinuousMountainCar": ("ClipAction", "RescaleAction"), "Acrobot": ("RescaleObservation", "ClipObservation"),
            "Pendulum": ("RescaleAction", "RescaleObservation")}.get(type(getattr(env, "unwrapped", env)).__name__)
    if want:
        def has(stack, kind):
            return any(k == kind for k, _ in stack) and (kind != "TimeLimit" or len(stack) == 1)
        pick = [next((x for x in rest if has(x, kind)), None) for kind in want]
        if all(p is not None for p in pick):
            return st[:1] + pick
    i = sum(map(ord, type(getattr(env, "unwrapped", env)).__name__)) % len(rest)
    return st[:1] + [rest[i], rest[(i + 1 + len(rest) // 2) % len(rest)]]


def wrap(env, stack):
    from lerax import wrapper as W
    for kind, arg in stack:
        if kind == "TimeLimit":
            env = W.TimeLimit(env, arg)
        elif kind == "ClipReward":
            env = W.ClipReward(env, -0.5, 0.5)
        else:
            env = getattr(W, kind)(env)
    return env


# --------------------------------------------------------------------------------------------- oracles
def np_in_space(space, x) -> tuple[bool, bool]:
    """(member, well-typed) by an independent numpy oracle"""
    from lerax.space import Box, Discrete
    a = np.asarray(x)
    if isinstance(space, Discrete):
        typed = a.shape == () and np.issubdtype(a.dtype, np.integer)
        return bool(typed and 0 <= int(a) < space.n), bool(typed)
    if isinstance(space, Box):
        lo, hi = np.asarray(space.low), np.asarray(space.high)
        typed = a.shape == lo.shape and np.issubdtype(a.dtype, np.floating)
        return bool(typed and not np.any(np.isnan(a)) and np.all(a >= lo) and np.all(a <= hi)), bool(typed)
    return True, True


_MJ_STATE = ("qpos", "qvel", "time", "ctrl", "act", "mocap_pos", "mocap_quat")


def close_tree(a, b, loose: bool = False) -> bool:
    """leaf-wise agreement up to floating-point reassociation.  Inside an MJX simulation state only the *state variables* (qpos,
    qvel, time, ctrl, act, mocap) are compared (rtol 1e-4): derived force arrays (cfrc_int, qfrc_bias, qacc_smooth, ...) are sums with
    heavy cancellation and differ by a few 1e-5 relative between two compilations of the same float32 program."""
    import jax
    la, lb = jax.tree_util.tree_flatten_with_path(a)[0], jax.tree_util.tree_flatten_with_path(b)[0]
    if len(la) != len(lb):
        return False
    for (px, x), (_, y) in zip(la, lb):
        x, y = np.asarray(x), np.asarray(y)
        if x.shape != y.shape:
            return False
        ks = jax.tree_util.keystr(px)
        rtol, atol = (1e-4, 1e-4) if loose else (RTOL, ATOL)
        if "sim_state" in ks:
            if not any(ks.endswith("." + n) or ks.endswith("'" + n + "']") for n in _MJ_STATE):
                continue
            rtol, atol = 1e-4, 1e-5
        if x.dtype == np.bool_ or np.issubdtype(x.dtype, np.integer):
            if not np.array_equal(x, y):
                return False
        elif not np.allclose(x, y, rtol=rtol, atol=atol, equal_nan=True):
            return False
    return True


def init_box(name: str, inner) -> bool:
    """returned inner state inside the environment's documented initial range (classic control)"""
    y = np.asarray(getattr(inner, "y", np.zeros(1)), dtype=np.float64)
    e = 1e-6
    if name == "CartPole":
        return bool(np.all(np.abs(y) <= 0.05 + e))
    if name in ("MountainCar", "ContinuousMountainCar"):
        return bool(-0.6 - e <= y[0] <= -0.4 + e and abs(y[1]) <= e)
    if name == "Acrobot":
        return bool(np.all(np.abs(y) <= 0.1 + e))
    if name == "Pendulum":
        return bool(abs(y[0]) <= math.pi + e and abs(y[1]) <= 1.0 + e)
    return True


def counters(state, stack) -> list:
    out = []
    st = state
    for kind, _ in reversed(stack):
        if kind == "TimeLimit":
            out.append(int(st.step_count))
        st = st.env_state
    out.reverse()
    return out


# --------------------------------------------------------------------------------------------- recording
def action_schedule(env, mode: str, n: int, key):
    import jax.numpy as jnp
    import jax.random as jr
    from lerax.space import Box
    sp = env.action_space
    acts = []
    for i, k in enumerate(jr.split(key, n)):
        if mode == "sample" or not isinstance(sp, Box) or not np.all(np.isfinite(np.asarray(sp.low))):
            if mode != "sample" and not isinstance(sp, Box):
                a = jnp.asarray({"low": 0, "high": sp.n - 1, "alternate": (i % 2) * (sp.n - 1), "hold": 0 if (i // 5) % 2 == 0 else sp.n - 1}[mode])
            else:
                a = sp.sample(key=k)
        else:
            lo, hi = sp.low, sp.high
            a = {"low": lo, "high": hi, "alternate": lo if i % 2 == 0 else hi, "hold": lo if (i // 5) % 2 == 0 else hi}[mode]
        acts.append(a)
    return acts


def record_rollout(name: str, env, stack: list, mode: str, steps: int, seed: int, modes_every: int = 0) -> dict:
    import equinox as eqx
    import jax
    import jax.numpy as jnp
    import jax.random as jr
    limits = [a for k, a in stack if k == "TimeLimit"]
    f_trans, f_comp, f_obs = _jitted()
    k0, k1, k2 = jr.split(jr.key(seed), 3)
    acts = action_schedule(env, mode, steps, k2)

    def run():
        state, obs, _ = env.reset(key=k0)
        outs = [(state, obs, None, None, None)]
        st = state
        for a, k in zip(acts, jr.split(k1, steps)):
            st2, obs, rew, term, trunc, _ = env.step(st, a, key=k)
            outs.append((st2, obs, rew, term, trunc))
            st = st2
        return outs

    outs = run()
    state, obs = outs[0][0], outs[0][1]
    m, t = np_in_space(env.observation_space, obs)
    evs = [dict(ev="reset", term=False, trunc=False, c_term=False, c_trunc=False, cnt=counters(state, stack), atoms={
        "ObservationIsOfReturnedState": close_tree(obs, f_obs(env, state, k0)),
        "FreshStateHasZeroClock": bool(float(getattr(state.unwrapped, "t", 0.0)) == 0.0),
        "FreshStateIsInInitialRange": init_box(name, state.unwrapped),
        "SigObservationInDeclaredSpace": m, "SigObservationDtypeAndShape": t})]
    prev = state
    for i, (a, k) in enumerate(zip(acts, jr.split(k1, steps))):
        st2, obs, rew, term, trunc = outs[i + 1]
        succ = f_trans(env, prev, a, k)
        c_rew, c_term, c_trunc = f_comp(env, prev, a, succ, k)
        done = bool(term) or bool(trunc)
        m, t = np_in_space(env.observation_space, obs)
        am, at = np_in_space(env.action_space, a)
        r = np.asarray(rew)
        atoms = {
            "RewardIsThatOfTheTransitionTaken": bool(np.allclose(r, np.asarray(c_rew), rtol=RTOL, atol=ATOL)),
            "ReturnedStateIsTheSuccessor": True if done else close_tree(st2, succ),
            "ObservationIsOfReturnedState": close_tree(obs, f_obs(env, st2, k)),
            "FreshStateHasZeroClock": (not done) or bool(float(getattr(st2.unwrapped, "t", 0.0)) == 0.0),
            "FreshStateIsInInitialRange": (not done) or init_box(name, st2.unwrapped),
            "SigObservationInDeclaredSpace": m, "SigObservationDtypeAndShape": t,
            "SigRewardIsFiniteFloatScalar": bool(r.shape == () and np.issubdtype(r.dtype, np.floating) and np.isfinite(r)),
            "SigTerminalIsBooleanScalar": bool(np.asarray(term).shape == () and np.asarray(term).dtype == np.bool_),
            "SigTruncatedIsBooleanScalar": bool(np.asarray(trunc).shape == () and np.asarray(trunc).dtype == np.bool_),
            "SigSampledActionInDeclaredSpace": (am and at) if mode == "sample" else True,
        }
        if modes_every and mode == "sample" and i == 1:      # one eager evaluation per rollout: un-jitted diffrax / MJX steps are slow
            atoms["ModesEagerJitVmapAgree"] = modes_agree(env, prev, a, k, succ)
        evs.append(dict(ev="step", term=bool(term), trunc=bool(trunc), c_term=bool(c_term), c_trunc=bool(c_trunc),
                        cnt=counters(st2, stack), atoms=atoms))
        prev = st2
    # no Python-side state: the same rollout again (other work in between) gives bit-identical outputs
    again = run()
    same = all(close_bits(x, y) for x, y in zip(outs, again))
    evs[-1]["atoms"]["SigNoPythonSideState"] = bool(same)
    return {"limits": limits, "events": evs, "meta": {"env": name, "stack": [k for k, _ in stack], "mode": mode}}


_JIT: list = []


def _jitted():
    """module-level jitted component functions (a fresh lambda per rollout would recompile every time)"""
    if not _JIT:
        import equinox as eqx
        _JIT.append(eqx.filter_jit(lambda env, s, a, k: env.transition(s, a, key=k)))
        _JIT.append(eqx.filter_jit(lambda env, s, a, nx, k: (env.reward(s, a, nx, key=k), env.terminal(nx, key=k),
                                                             env.unwrapped.truncate(nx.unwrapped))))
        _JIT.append(eqx.filter_jit(lambda env, s, k: env.observation(s, key=k)))
    return _JIT


def close_bits(a, b) -> bool:
    import jax
    la, lb = jax.tree.leaves(a), jax.tree.leaves(b)
    return len(la) == len(lb) and all(np.array_equal(np.asarray(x), np.asarray(y), equal_nan=True) for x, y in zip(la, lb))


def modes_agree(env, state, action, key, jit_succ) -> bool:
    """transition / observation / reward / terminal: eager = jit = vmap(batch of 2) up to floating-point reassociation"""
    import jax
    import jax.numpy as jnp
    eager = env.transition(state, action, key=key)
    if not close_tree(eager, jit_succ):
        return False
    batch = lambda x: jax.tree.map(lambda v: jnp.stack([v, v]), x)
    try:
        vm = jax.vmap(lambda s, a: env.transition(s, a, key=key))(batch(state), batch(action))
    except Exception:  # noqa: BLE001 - a function that cannot be vmapped is not transparent
        return False
    if not close_tree(jax.tree.map(lambda v: v[1], vm), jit_succ):
        return False
    o_e = env.observation(eager, key=key)
    o_v = jax.vmap(lambda s: env.observation(s, key=key))(batch(eager))
    r_e = env.reward(state, action, eager, key=key)
    r_v = jax.vmap(lambda s, a, n: env.reward(s, a, n, key=key))(batch(state), batch(action), batch(eager))
    t_v = jax.vmap(lambda s: env.terminal(s, key=key))(batch(eager))
    mj = hasattr(getattr(env, "unwrapped", env), "mujoco_model")       # MJX observations contain derived force arrays (see close_tree)
    return bool(close_tree(o_e, jax.tree.map(lambda v: v[0], o_v), loose=mj) and close_tree(r_e, r_v[0], loose=mj)
                and bool(np.asarray(env.terminal(eager, key=key)) == np.asarray(t_v)[0]))


# --------------------------------------------------------------------------------------------- checks
def gen_cases(ctx: Ctx, family: str, modes_every: int = 0) -> list:
    rng = ctx.rng
    cases = []
    envs = classic_envs(ctx) if family == "classic" else mujoco_envs(ctx)
    for (name, kw, mk) in envs:
        if family == "mujoco" and kw and not (ctx.thorough and (name, next(iter(kw))) in FULL_VARIANTS):
            # option variant: the reset alone shows whether the declared space follows the option (no step compilation)
            cases.append(dict(family=family, env=name, kw=kw, stack=[], mode="sample", steps=0, seed=rng.randrange(2 ** 31), modes_every=0))
            continue
        env0 = mk()
        stacks = stacks_for(env0, ctx, rng)
        if family == "mujoco" and not ctx.thorough:
            stacks = [[("TimeLimit", 3)]]              # MJX steps compile in 15-25 s per (class, stack): one stack, all eleven classes
        eager_done = False
        for stack in stacks:
            for mode in ((["sample", "alternate"] if family == "mujoco" else ["sample", "low", "alternate"]) if not ctx.thorough
                         else ["sample", "sample", "low", "high", "alternate", "hold"]):
                steps = ctx.pick(24, 96) if family == "classic" else ctx.pick(6, 24)
                # an un-jitted MJX step takes minutes: one eager / jit / vmap comparison per MuJoCo class, not one per rollout
                me = modes_every if (family == "classic" or not eager_done) else 0
                eager_done |= bool(me) and mode == "sample"
                cases.append(dict(family=family, env=name, kw=kw, stack=stack, mode=mode, steps=steps, seed=rng.randrange(2 ** 31),
                                  modes_every=me))
    return cases


_ENV_CACHE: dict = {}


def env_of(ctx, case):
    key = (case["family"], case["env"], repr(case["kw"]), repr(case["stack"]))
    if key not in _ENV_CACHE:
        envs = classic_envs(ctx) if case["family"] == "classic" else mujoco_envs(ctx)
        mk = next(m for (n, kw, m) in envs if n == case["env"] and kw == case["kw"])
        _ENV_CACHE[key] = wrap(mk(), [tuple(s) for s in case["stack"]])
    return _ENV_CACHE[key]


def record_case(ctx, case) -> dict:
    from ..core import relieve_jit
    relieve_jit()
    return record_rollout(case["env"], env_of(ctx, case), [tuple(s) for s in case["stack"]], case["mode"], case["steps"], case["seed"],
                          case.get("modes_every", 0))


def record_cases(ctx: Ctx, cases: list) -> list:
    """classic-control cases in this process; MuJoCo cases in one subprocess per environment class (one XLA compilation of an
    MJX step takes 15-25 s, the classes are independent)"""
    import json
    import subprocess
    import sys
    from concurrent.futures import ThreadPoolExecutor
    from pathlib import Path
    out = [None] * len(cases)
    groups = {}
    for i, c in enumerate(cases):
        if c["family"] == "mujoco":
            groups.setdefault(c["env"], []).append(i)
        else:
            out[i] = record_case(ctx, c)
    if not groups:
        return out
    env = dict(os.environ)
    env.setdefault("JAX_PLATFORMS", "cpu")

    def one(item):
        name, idx = item
        fin, fout = ctx.work / f"mjcases_{name}.json", ctx.work / f"mjtraces_{name}.json"
        fin.write_text(json.dumps([cases[i] for i in idx]))
        p = subprocess.run([sys.executable, "-m", "lvf.props.builtin_env", ctx.tier, str(ctx.seed), str(fin), str(fout)],
                           capture_output=True, text=True, env=env, cwd=str(Path(__file__).resolve().parents[2]), timeout=3000)
        if p.returncode != 0 or not fout.exists():
            return name, idx, None, (p.stderr or p.stdout)[-3000:]
        return name, idx, json.loads(fout.read_text()), None
    with ThreadPoolExecutor(max_workers=ctx.pick(6, 8)) as ex:
        for name, idx, trs, err in ex.map(one, sorted(groups.items())):
            if err is not None:
                if "RAISED-INSIDE-LERAX" in err:
                    line = next(l for l in err.splitlines() if "RAISED-INSIDE-LERAX" in l)
                    Violation(f"{ctx.pid}:{name}:raises", line, "exception", {"env": name})       # registered in core.ALL_VIOLATIONS
                    raise Machinery(f"recording {name}: {line}")
                raise Machinery(f"recording MuJoCo rollouts of {name} failed: {err[-1500:]}")
            for i, t in zip(idx, trs):
                out[i] = t
    return out


def run_traces(ctx: Ctx, pid: str, only, families=("classic",), modes_every: int = 0) -> Report:
    rep = Report()
    res = tlc.run("mc/MC_EnvOpaque.tla", workdir=ctx.work, workers=4, timeout=600)
    tlc.require_ok(res, "MC_EnvOpaque")
    rep.add_tlc("MC_EnvOpaque", res)
    cases = []
    for fam in families:
        cases += gen_cases(ctx, fam, modes_every)
    traces = record_cases(ctx, cases)
    v = tracecheck.validate(ctx, SPEC, traces, f"opaque_{pid}", procs=ctx.pick(2, 8))
    rep.states += v.distinct
    rep.transitions += v.generated
    rep.traces += len(traces)
    rep.evaluations += sum(len(t["events"]) for t in traces)
    rep.parts[f"C2S_builtin_envs_{'_'.join(families)}"] = {
        "rollouts": len(traces), "steps": sum(len(t["events"]) - 1 for t in traces),
        "envs": sorted({c["env"] for c in cases}), "stacks": sorted({"+".join(k for k, _ in c["stack"]) for c in cases}),
        "done_steps": sum(1 for t in traces for e in t["events"] if e["term"] or e["trunc"]),
        "accepted": len(v.accepted), "rejected": len(v.rejected)}
    for i, (l, clauses) in sorted(v.rejected.items()):
        mine = [c for c in clauses if only(c)]
        if not mine:
            continue
        ev = traces[i]["events"][l - 1]
        rep.violations.append(Violation(f"{pid}:{cases[i]['env']}:" + "+".join(mine),
                                        f"{cases[i]['env']}{cases[i]['kw']} under {[k for k, _ in cases[i]['stack']]} ({cases[i]['mode']} actions), "
                                        f"step {l - 1}: failing {mine}; flags term={ev['term']} trunc={ev['trunc']} c_term={ev['c_term']} cnt={ev['cnt']}",
                                        "builtin_env", cases[i]))
    # TLC stops a trace at its first rejected event; an atom of THIS property that fails later in a trace already rejected for a
    # clause of another property must not be lost
    reported = {i for i, (l, clauses) in v.rejected.items() if any(only(c) for c in clauses)}
    for i, t in enumerate(traces):
        if i in reported:
            continue
        for l, e in enumerate(t["events"]):
            mine = sorted(a for a, ok in e.get("atoms", {}).items() if not ok and only(a))
            if mine:
                rep.violations.append(Violation(f"{pid}:{cases[i]['env']}:" + "+".join(mine),
                                                f"{cases[i]['env']}{cases[i]['kw']} under {[k for k, _ in cases[i]['stack']]} ({cases[i]['mode']} actions), "
                                                f"step {l}: failing {mine} (trace already rejected earlier for clauses of another property)",
                                                "builtin_env", cases[i]))
                break
    # binding self-test
    good = sorted(v.accepted)
    if not good:
        raise Machinery("built-in environment traces: none accepted")
    m = copy.deepcopy(traces[good[0]])
    m["events"][2]["term"] = not m["events"][2]["term"]
    m2 = copy.deepcopy(traces[good[0]])
    m2["events"][1]["atoms"]["SigObservationInDeclaredSpace"] = False
    vb = tracecheck.validate(ctx, SPEC, [m, m2], f"opaque_selftest_{pid}")
    if len(vb.rejected) != 2:
        raise Machinery("built-in environment binding self-test failed")
    t0 = traces[good[0]]
    rep.samples.append({"kind": "built-in environment rollout (opaque dynamics)", "meta": t0["meta"], "limits": t0["limits"],
                        "events": t0["events"][:3]})
    return rep


def is_c01(c: str) -> bool:
    return not c.startswith("Sig") and not c.startswith("Modes")


def run_c01(ctx: Ctx) -> Report:
    rep = run_traces(ctx, "C01", is_c01, families=("classic", "mujoco") if ctx.thorough else ("classic",))
    rep.assumptions += ["built-in environments: successor / observation / reward relations hold up to rtol 1e-5, atol 1e-6 (the same "
                        "function compiled in two programs differs by 1 ulp); components are called with other keys than step used "
                        "(sound for key-independent components: classic control and MuJoCo)"]
    return rep


def replay(ctx: Ctx, driver: str, case: dict, pid="C01", only=is_c01) -> Report:
    rep = Report()
    tr = record_case(ctx, case)
    v = tracecheck.validate(ctx, SPEC, [tr], "replay")
    rep.traces = 1
    for i, (l, clauses) in v.rejected.items():
        mine = [c for c in clauses if only(c)]
        if mine:
            rep.violations.append(Violation(f"{pid}:{case['env']}:" + "+".join(mine), f"step {l - 1}: {mine}", "builtin_env", case))
    return rep


# --------------------------------------------------------------------------------------------- extremal search (C02)
_SEARCH_JIT: dict = {}


def extremal_search(name: str, env, horizon: int, pop: int, gens: int, seed: int) -> dict:
    """Search for in-space action sequences that drive observation components to their extremes: a small evolutionary search
    over bang-bang (bound-corner) action sequences, evaluated by vmapped rollouts through the real env.reset / env.step.
    Every observation visited by every candidate must be a member of the declared observation space (numpy oracle)."""
    import equinox as eqx
    import jax
    import jax.numpy as jnp
    import jax.random as jr
    from lerax.space import Box, Discrete
    sp = env.action_space
    if isinstance(sp, Discrete):
        lo_a, hi_a = jnp.asarray(0), jnp.asarray(sp.n - 1)
    else:
        lo_a, hi_a = sp.low, sp.high

    if "f" not in _SEARCH_JIT:
        def rollout(env, lo_a, hi_a, bits, rkey, skeys):
            def one(b):
                state, obs0, _ = env.reset(key=rkey)

                def body(st, xs):
                    bit, k = xs
                    a = jnp.where(bit, hi_a, lo_a)
                    out = env.step(st, a, key=k)
                    return out[0], (out[1], out[2])
                _, (obs, rew) = jax.lax.scan(body, state, (b, skeys))
                return jnp.concatenate([obs0[None], obs]), rew
            return jax.vmap(one)(bits)
        _SEARCH_JIT["f"] = eqx.filter_jit(rollout)
    f = _SEARCH_JIT["f"]
    rng = np.random.default_rng(seed)
    olo, ohi = np.asarray(env.observation_space.low, dtype=np.float64), np.asarray(env.observation_space.high, dtype=np.float64)
    k0, k1 = jr.split(jr.key(seed))
    skeys = jr.split(k1, horizon)

    def random_member():
        b = np.zeros(horizon, dtype=bool)
        t, cur = 0, bool(rng.integers(2))
        while t < horizon:
            seg = int(rng.integers(1, max(2, horizon // 4)))
            b[t:t + seg] = cur
            cur = not cur
            t += seg
        return b

    popn = np.stack([random_member() for _ in range(pop)])
    popn[0, :] = False
    popn[1, :] = True
    worst_margin, in_space, typed, finite_rew, n_obs = np.inf, True, True, True, 0
    extremes = None
    for g in range(gens):
        obs, rew = f(env, lo_a, hi_a, jnp.asarray(popn), k0, skeys)
        obs, rew = np.asarray(obs, dtype=np.float64), np.asarray(rew)
        n_obs += obs.shape[0] * obs.shape[1]
        typed &= obs.shape[2:] == olo.shape
        bad = np.isnan(obs) | (obs < olo) | (obs > ohi)
        in_space &= not bool(bad.any())
        finite_rew &= bool(np.all(np.isfinite(rew)))
        flat = obs.reshape(obs.shape[0], obs.shape[1], -1)
        mx, mn = flat.max(axis=1), flat.min(axis=1)                  # (pop, dim)
        extremes = (mn.min(axis=0), mx.max(axis=0))
        elite = set()
        for d in range(flat.shape[2]):
            elite |= set(np.argsort(mx[:, d])[-3:]) | set(np.argsort(mn[:, d])[:3])
        elite = sorted(elite)
        children = []
        while len(children) < pop - len(elite):
            p = popn[elite[int(rng.integers(len(elite)))]].copy()
            for _ in range(int(rng.integers(1, 4))):
                a, w = int(rng.integers(horizon)), int(rng.integers(1, max(2, horizon // 6)))
                p[a:a + w] = ~p[a:a + w] if rng.random() < 0.5 else bool(rng.integers(2))
            children.append(p)
        popn = np.stack([popn[i] for i in elite] + children)
    return {"limits": [], "events": [dict(ev="reset", term=False, trunc=False, c_term=False, c_trunc=False, cnt=[], atoms={
        "SigObservationInDeclaredSpace": bool(in_space), "SigObservationDtypeAndShape": bool(typed), "SigRewardIsFiniteFloatScalar": bool(finite_rew)})],
        "meta": {"env": name, "stack": [], "mode": "extremal_search", "observations_checked": int(n_obs), "generations": gens,
                 "extremes_reached": [[float(x) for x in extremes[0]], [float(x) for x in extremes[1]]]}}


if __name__ == "__main__":
    import json
    import sys
    os.environ.setdefault("JAX_PLATFORMS", "cpu")
    tier, seed, fin, fout = sys.argv[1], int(sys.argv[2]), sys.argv[3], sys.argv[4]
    wctx = Ctx("W" + str(os.getpid()), tier, seed)
    try:
        trs = [record_case(wctx, c) for c in json.loads(open(fin).read())]
        open(fout, "w").write(json.dumps(trs, default=lambda o: o.item() if hasattr(o, "item") else repr(o)))
    except Exception as ex:
        from ..check import _raised_inside_lerax
        v = _raised_inside_lerax("C02", ex)
        if v is not None:
            print("RAISED-INSIDE-LERAX " + v.what, file=sys.stderr)
        raise
    finally:
        wctx.cleanup()
