"""C20 - Unitree G1 episodes are randomised within range and gait phase stays coherent.

MC : spec/mc/MC_Gait (Gait.tla): K in {8,12,16,20}, all increments 0..3K (up to three cycles per control step), 3K steps: phases in range, half a cycle apart, advance by the
     increment; foot height (exact rationals) within [0, swing], vanishing at -pi, peaking at 0, monotone on each half.
C2S: the real advance_gait_phase / desired_foot_height along tick grids (every K, m; long histories) -> Trace_Gait;
     thorough tier: real G1 episodes (three tasks): gait phase along env.step histories with the state's own frequency, and per
     episode start the randomisation frame / ranges / kinematic consistency as atoms (see g1.py)."""
from __future__ import annotations

import copy
import math

import numpy as np

from .. import tlc, tracecheck
from ..core import Ctx, Machinery, Report, Violation

LEVEL = "model_checking"
SPEC = "trace/Trace_Gait.tla"


def to_ticks(phase, K, tol=1e-3):
    t = float(phase) * K / (2 * math.pi)
    return int(round(t)), bool(abs(t - round(t)) < tol)


def record_pure(K: int, m: int, n_steps: int, swing: float) -> dict:
    import jax.numpy as jnp
    from lerax.env.unitree.g1.gait import advance_gait_phase, desired_foot_height, initial_gait_phase
    dt = 0.02
    f = m / (K * dt)
    ph = initial_gait_phase()
    l0, ok_l = to_ticks(ph[0], K)
    r0, ok_r = to_ticks(ph[1], K)
    evs = []
    for i in range(n_steps):
        ph = advance_gait_phase(ph, jnp.asarray(f, dtype=jnp.float32), jnp.asarray(dt, dtype=jnp.float32))
        h = np.asarray(desired_foot_height(ph, swing)) / swing
        # float32 rounding of phase + increment (values up to 4 pi + increment) accumulates along the history: about 1e-5 ticks
        # per step at the largest increments; a wrong increment or wrap is off by a fixed fraction of a tick from the first step on
        tol = min(1e-3 + 1e-4 * (i + 1) * max(1, m // K + 1), 0.05)
        (l, g1), (r, g2) = to_ticks(ph[0], K, tol), to_ticks(ph[1], K, tol)
        cl = lambda x: int(max(-10 ** 6, min(10 ** 6, round(float(x) * 1e4)))) if np.isfinite(x) else 10 ** 6      # TLC integers are 32-bit
        evs.append(dict(l=max(-10 ** 6, min(10 ** 6, l)), r=max(-10 ** 6, min(10 ** 6, r)), hl=cl(h[0]), hr=cl(h[1]), on_grid=bool(g1 and g2),
                        htol=2 + int(math.ceil(tol * 3.0 / K * 1e4))))
    return {"K": K, "m": m, "init": {"l": l0, "r": r0}, "events": evs, "atoms": {"InitialPhasesAreZeroAndPi": bool(ok_l and ok_r and l0 == 0 and r0 == K // 2)}}


def randomize_traces(ctx: Ctx):
    """The real randomize_model on the real G1 nominal model (cheap: no simulation), for the default and several NON-default
    range configurations: frame (only the four documented parameter groups change) and ranges, as atoms."""
    import jax
    import jax.random as jr
    from lerax.env.unitree.g1 import G1Standing, randomize
    env = G1Standing(push_enable=False, noise_level=0.0)
    base = env.base_model
    configs = [dict(friction_range=(0.4, 1.0), friction_loss_scale_range=(0.5, 2.0), armature_scale_range=(1.0, 1.05), mass_scale_range=(0.9, 1.1), torso_offset_range=(-1.0, 1.0)),
               dict(friction_range=(0.6, 0.7), friction_loss_scale_range=(1.0, 1.5), armature_scale_range=(1.0, 1.02), mass_scale_range=(1.0, 1.0), torso_offset_range=(0.0, 0.5)),
               dict(friction_range=(0.2, 0.3), friction_loss_scale_range=(0.25, 0.5), armature_scale_range=(1.1, 1.2), mass_scale_range=(0.5, 0.6), torso_offset_range=(2.0, 3.0)),
               dict(friction_range=(1.0, 1.0), friction_loss_scale_range=(1.0, 1.0), armature_scale_range=(1.0, 1.0), mass_scale_range=(1.0, 1.0), torso_offset_range=(0.0, 0.0))]
    traces, cases = [], []
    e = 1e-5
    for ci, cfg in enumerate(configs):
        A = {k: True for k in ("OnlyTheDocumentedModelParametersAreRandomised", "ContactFrictionWithinRange", "FrictionLossScaleWithinRange",
                               "ArmatureScaleWithinRange", "BodyMassScaleAndTorsoOffsetWithinRange")}
        for k in range(ctx.pick(6, 32)):
            m = randomize.randomize_model(base, key=jr.key(ctx.seed * 1000 + 17 * ci + k), nominal_friction_loss=env.nominal_friction_loss,
                                          nominal_armature=env.nominal_armature, nominal_body_mass=env.nominal_body_mass,
                                          torso_body_id=env.torso_body_id, **cfg)
            changed = set()
            for (path, a), (_, b) in zip(jax.tree_util.tree_flatten_with_path(m)[0], jax.tree_util.tree_flatten_with_path(base)[0]):
                if hasattr(a, "shape") and not np.array_equal(np.asarray(a), np.asarray(b)):
                    changed.add(jax.tree_util.keystr(path).strip(".").split(".")[-1].strip("[]'\""))
            A["OnlyTheDocumentedModelParametersAreRandomised"] &= changed <= {"pair_friction", "dof_frictionloss", "dof_armature", "body_mass"}
            pf, pf0 = np.asarray(m.pair_friction), np.asarray(base.pair_friction)
            lo, hi = cfg["friction_range"]
            A["ContactFrictionWithinRange"] &= bool(np.all(pf[0:2, 0:2] >= lo - e) and np.all(pf[0:2, 0:2] <= hi + e))
            rest = pf.copy()
            rest[0:2, 0:2] = pf0[0:2, 0:2]
            A["OnlyTheDocumentedModelParametersAreRandomised"] &= bool(np.array_equal(rest, pf0))
            fl, fl0 = np.asarray(m.dof_frictionloss), np.asarray(env.nominal_friction_loss)
            lo, hi = cfg["friction_loss_scale_range"]
            A["FrictionLossScaleWithinRange"] &= bool(np.all(fl[6:] >= fl0 * lo - e) and np.all(fl[6:] <= fl0 * hi + e))
            A["OnlyTheDocumentedModelParametersAreRandomised"] &= bool(np.array_equal(fl[:6], np.asarray(base.dof_frictionloss)[:6]))
            ar, ar0 = np.asarray(m.dof_armature), np.asarray(env.nominal_armature)
            lo, hi = cfg["armature_scale_range"]
            A["ArmatureScaleWithinRange"] &= bool(np.all(ar[6:] >= ar0 * lo - e) and np.all(ar[6:] <= ar0 * hi + e))
            A["OnlyTheDocumentedModelParametersAreRandomised"] &= bool(np.array_equal(ar[:6], np.asarray(base.dof_armature)[:6]))
            bm, bm0 = np.asarray(m.body_mass, dtype=np.float64), np.asarray(env.nominal_body_mass, dtype=np.float64)
            lo, hi = cfg["mass_scale_range"]
            tlo, thi = cfg["torso_offset_range"]
            for b in range(len(bm0)):
                l_, h_ = bm0[b] * lo, bm0[b] * hi
                if b == env.torso_body_id:
                    l_, h_ = l_ + tlo, h_ + thi
                A["BodyMassScaleAndTorsoOffsetWithinRange"] &= bool(l_ - 1e-4 <= bm[b] <= h_ + 1e-4)
        traces.append({"K": 8, "m": 1, "init": {"l": 0, "r": 4}, "events": [], "atoms": {k: bool(v) for k, v in A.items()}})
        cases.append({"kind": "randomize", "config": ci})
    return traces, cases


def viol(v, traces, cases):
    out = []
    for i, (l, clauses) in sorted(v.rejected.items()):
        ev = traces[i]["events"][l - 1] if l >= 1 else traces[i]["atoms"]
        out.append(Violation("C20:" + cases[i]["kind"] + ":" + "+".join(clauses),
                             f"{cases[i]} K={traces[i]['K']} m={traces[i]['m']}: step {l} violates {clauses}: {ev}",
                             "gait", cases[i]))
    return out


def run(ctx: Ctx) -> Report:
    rep = Report()
    res = tlc.run("mc/MC_Gait.tla", workdir=ctx.work, workers=8, coverage=True, timeout=900)
    tlc.require_ok(res, "MC_Gait")
    rep.add_tlc("MC_Gait", res)
    if res.distinct < 1000:
        raise Machinery("MC_Gait vacuity guard")
    cases = []
    for K in (8, 12, 16, 20, 32):
        ms = list(range(1, K)) if K <= 16 else ctx.rng.sample(range(1, K), min(K - 1, ctx.pick(6, 20)))
        # increments of a whole cycle and more per control step (gait frequency x dt >= 1) and the standing gait (m = 0)
        for m in ms + [0, K, K + 1, K + K // 2, 2 * K + 3, 3 * K - 1]:
            cases.append({"kind": "pure", "K": K, "m": m, "n": ctx.pick(3 * K, 12 * K), "swing": ctx.rng.choice([0.15, 0.08, 0.25])})
    traces = [record_pure(c["K"], c["m"], c["n"], c["swing"]) for c in cases]
    rt, rc = randomize_traces(ctx)
    traces += rt
    cases += rc
    if ctx.thorough:
        try:
            from . import g1
            gt, gc = g1.gait_traces(ctx)
            traces += gt
            cases += gc
        except ImportError:
            rep.notes.append("G1 episode histories: driver not present")
    else:
        rep.notes.append("real G1 episodes (randomisation frame/ranges, kinematic consistency, gait phase along env.step) run in the "
                         "thorough tier only: one G1 initial() / step() compiles in about 100 s each")
    v = tracecheck.validate(ctx, SPEC, traces, "gait", procs=ctx.pick(2, 8))
    rep.states += v.distinct
    rep.transitions += v.generated
    rep.traces += len(traces)
    rep.evaluations += sum(len(t["events"]) for t in traces)
    rep.parts["C2S_gait"] = {"histories": len(traces), "steps": sum(len(t["events"]) for t in traces),
                             "randomize_model_configurations": sum(1 for c in cases if c["kind"] == "randomize"),
                             "g1_episode_histories": sum(1 for c in cases if c["kind"] not in ("pure", "randomize")),
                             "accepted": len(v.accepted), "rejected": len(v.rejected)}
    rep.violations += viol(v, traces, cases)
    good = [i for i in sorted(v.accepted) if cases[i]["kind"] == "pure"][0]
    m1 = copy.deepcopy(traces[good])
    m1["events"][3]["r"] = m1["events"][3]["l"]
    m2 = copy.deepcopy(traces[good])
    m2["events"][2]["hl"] += 50
    vb = tracecheck.validate(ctx, SPEC, [m1, m2], "gait_selftest")
    if len(vb.rejected) != 2:
        raise Machinery("C20 binding self-test failed")
    rep.samples.append({"kind": "gait history on a tick grid", "K": traces[good]["K"], "m": traces[good]["m"], "events": traces[good]["events"][:4]})
    rep.undecided += ["float drift of the phase over arbitrarily long histories (the tick model proves the modular scheme; floats are observed "
                      "along the recorded histories only)", "range membership of randomised parameters is an atom"]
    return rep


def replay(ctx: Ctx, driver: str, case: dict) -> Report:
    rep = Report()
    if case["kind"] == "pure":
        tr = record_pure(case["K"], case["m"], case["n"], case["swing"])
        v = tracecheck.validate(ctx, SPEC, [tr], "replay")
        rep.violations += viol(v, [tr], [case])
    elif case["kind"] == "randomize":
        rt, rc = randomize_traces(ctx)
        v = tracecheck.validate(ctx, SPEC, rt, "replay")
        rep.violations += [x for x in viol(v, rt, rc) if x.case["config"] == case["config"]]
    else:
        from . import g1
        return g1.replay(ctx, case)
    rep.traces = 1
    return rep
