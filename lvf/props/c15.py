"""C15 - action distributions are coherent probability laws.

Decided with the specification: the discrete laws (Categorical, Bernoulli, MultiCategorical; probs and logits; flat and
sequence parameterisations; with and without masks): exact rational probabilities, total mass, mode, support of samples,
product structure - MC_DiscreteLaws + Trace_Laws.  Real-valued facts are harness-evaluated atoms collected by the same trace
specification: prob = exp(log_prob), sample_and_log_prob consistency, squashed samples/mode within bounds, diagonal product
structure, the Jacobian scaling law at the image of the base mean, and - statistically, with fixed keys and 6-sigma bounds -
total mass (numerical integral of exp(log_prob) incl. the squashing Jacobian), goodness of fit of samples against the stated
density / probabilities (incl. joint frequencies of product laws) and entropy = -E[log p] where entropy is defined."""
from __future__ import annotations

from ..core import Ctx, Report
from . import c16

LEVEL = "model_checking"


def cont_cases(ctx: Ctx):
    rng = ctx.rng
    keys = [rng.randrange(10 ** 6) for _ in range(ctx.pick(8, 32))]
    out = []
    for _ in range(ctx.pick(4, 20)):
        out.append(("cont", ("Normal", dict(loc=rng.choice([-1.0, 0.0, 2.5]), scale=rng.choice([0.25, 1.0, 3.0])), keys)))
        d = rng.choice([2, 3])
        out.append(("cont", ("MultivariateNormalDiag", dict(loc=[rng.choice([-1.0, 0.0, 2.0]) for _ in range(d)],
                                                            scale=[rng.choice([0.5, 1.0, 2.0]) for _ in range(d)]), keys)))
        lo, hi = rng.choice([(-1.0, 1.0), (-2.0, 2.0), (0.0, 4.0), (-3.0, 0.5)])
        out.append(("cont", ("SquashedNormal", dict(loc=rng.choice([-1.0, 0.0, 1.0]), scale=rng.choice([0.5, 1.0]), low=lo, high=hi), keys)))
        out.append(("cont", ("SquashedNormal", dict(loc=0.0, scale=1.0, low=lo, high=hi, std=True), keys)))
        out.append(("cont", ("SquashedMultivariateNormalDiag", dict(loc=[rng.choice([-1.0, 0.0, 1.0]) for _ in range(d)],
                                                                    scale=[rng.choice([0.5, 1.0]) for _ in range(d)],
                                                                    low=[lo] * d, high=[hi - 0.5 * i for i in range(d)]), keys)))
    return out


def run(ctx: Ctx) -> Report:
    rep = Report()
    c16.run_mc(ctx, rep)
    lc = c16.law_cases(ctx, masked=False) + c16.law_cases(ctx, masked=True)[::3] + cont_cases(ctx)
    # parameters with a leading batch dimension: every method row-wise
    from .. import drive_laws as dl
    lc += [("batched", (k, ctx.rng.randrange(10 ** 6))) for k in dl.BATCHED_KINDS for _ in range(ctx.pick(2, 6))]
    evs = [c16.record_law(c) for c in lc]
    cases = [{"law": [c[0], list(c[1])]} for c in lc]
    c16.judge(ctx, rep, "C15", evs, cases, "laws")
    rep.samples.append({"kind": "product law case", **{k: x for k, x in next(e for e in evs if e["ev"] == "multi").items()
                                                       if k in ("dims", "w", "m", "mode", "atoms")}})
    rep.undecided += ["statistical clauses (total mass of densities, goodness of fit, entropy = -E[log p]) are decided up to 6-sigma "
                      "Monte-Carlo / quadrature tolerances on the sampled parameterisations, not exactly"]
    rep.assumptions += ["discrete probabilities compared with exact rationals up to 2e-6; continuous laws contribute atoms only"]
    return rep


def replay(ctx: Ctx, driver: str, case: dict) -> Report:
    if case["law"][0] == "batched":
        rep = Report()
        evs = [c16.record_law(("batched", tuple(case["law"][1])))]
        c16.judge(ctx, rep, "C15", evs, [case], "replay")
        return rep
    if case["law"][0] == "cont":
        rep = Report()
        kind, params, keys = case["law"][1]
        evs = [c16.record_law(("cont", (kind, params, keys)))]
        c16.judge(ctx, rep, "C15", evs, [case], "replay")
        return rep
    return c16.replay(ctx, driver, case)
