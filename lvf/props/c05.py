"""C05 - off-policy collection stores exactly the transitions that happened.

MC : spec/mc/MC_OffPolicy (OffPolicy.tla over MDP.tla and RingOps.tla).
C2S: real DQN / SAC reset + iteration (1..3 environments; training stubbed through public hooks) on TableEnv
     under real wrapper stacks -> spec/trace/Trace_OffPolicy (one trace per environment stream)."""
from __future__ import annotations

from .. import offpolicy_suite as ofs
from ..core import Ctx, Report

LEVEL = "model_checking"


def NOT_STATS(c: str) -> bool:
    """the logging-statistics clauses of the collector traces belong to C19"""
    return not c.startswith("Stats")


def run(ctx: Ctx) -> Report:
    rep = Report()
    ofs.run_mc(ctx, rep)
    ofs.run_c2s(ctx, rep, "C05", ctx.pick(12, 60), ctx.pick(30, 120), only=NOT_STATS)
    rep.assumptions += ["rows are read back from the ring at (position - k) % capacity; ring mechanics themselves are C06",
                        "capacity per stream >= rows written between two snapshots in the recorded configurations"]
    return rep


def replay(ctx: Ctx, driver: str, case: dict) -> Report:
    return ofs.replay(ctx, "C05", case, only=NOT_STATS)
