"""C05 - off-policy collection stores exactly the transitions that happened.

MC : spec/mc/MC_OffPolicy (OffPolicy.tla over MDP.tla and RingOps.tla).
C2S: real DQN / SAC reset + iteration (1..3 environments; training stubbed through public hooks) on TableEnv
     under real wrapper stacks -> spec/trace/Trace_OffPolicy (one trace per environment stream)."""
from __future__ import annotations

from .. import offpolicy_suite as ofs
from ..core import Ctx, Report

LEVEL = "model_checking"


def NOT_STATS(c: str) -> bool:
    """the logging-statistics clauses of the collector traces belong to C19"""
    return not c.startswith("Stats")


def run(ctx: Ctx) -> Report:
    rep = Report()
    ofs.run_mc(ctx, rep)
    ofs.run_c2s(ctx, rep, "C05", ctx.pick(12, 60), ctx.pick(30, 120), only=NOT_STATS)
    long_warmups(ctx, rep)
    rep.assumptions += ["rows are read back from the ring at (position - k) % capacity; ring mechanics themselves are C06",
                        "capacity per stream >= rows written between two snapshots in the recorded configurations"]
    return rep


LONG = [dict(bufsize=4, lstarts=6, N=1, nsteps=2), dict(bufsize=4, lstarts=9, N=2, nsteps=1), dict(bufsize=6, lstarts=7, N=3, nsteps=2),
        dict(bufsize=3, lstarts=8, N=1, nsteps=3), dict(bufsize=5, lstarts=5, N=1, nsteps=1)]


def long_warmup_case(algo: str, hp: dict, seed: int) -> dict:
    import random
    from .. import drive_offpolicy as dof
    from .. import tables as tb
    rng = random.Random(seed)
    base = tb.gen_mdp(rng, "disc" if algo == "DQN" else "box", "disc")
    cfg = tb.gen_ac_policy(rng, tb.with_stack(base, [tb.wrec("TimeLimit", n=3)]))
    cfg.update(hp, an=2)
    return dof.warmup_count_case(tb.EnvCache(), cfg, algo, seed)


def long_warmups(ctx: Ctx, rep: Report):
    """learning_starts > buffer_size (and = buffer_size): counters only, see drive_offpolicy.warmup_count_case"""
    from .. import tracecheck
    from ..core import Violation
    cases = [dict(algo=a, hp=hp, seed=ctx.rng.randrange(2 ** 31)) for a in ("DQN", "SAC") for hp in (LONG if ctx.thorough else LONG[:3])]
    items = [long_warmup_case(c["algo"], c["hp"], c["seed"]) for c in cases]
    v = tracecheck.validate(ctx, "trace/Trace_Atoms.tla", items, "long_warmups")
    rep.traces += len(items)
    rep.parts["warm_ups_longer_than_the_buffer"] = {"cases": [i["meta"] for i in items], "accepted": len(v.accepted), "rejected": len(v.rejected)}
    for i, (l, clauses) in sorted(v.rejected.items()):
        rep.violations.append(Violation(f"C05:long_warmup:{cases[i]['algo']}:" + "+".join(clauses),
                                        f"{cases[i]['algo']} {items[i]['meta']}: {clauses}", "long_warmup", cases[i]))


def replay(ctx: Ctx, driver: str, case: dict) -> Report:
    if driver == "long_warmup":
        from .. import tracecheck
        from ..core import Violation
        rep = Report()
        it = long_warmup_case(case["algo"], case["hp"], case["seed"])
        v = tracecheck.validate(ctx, "trace/Trace_Atoms.tla", [it], "replay")
        rep.traces = 1
        for i, (l, clauses) in v.rejected.items():
            rep.violations.append(Violation(f"C05:long_warmup:{case['algo']}:" + "+".join(clauses), str(it["meta"]), driver, case))
        return rep
    return ofs.replay(ctx, "C05", case, only=NOT_STATS)
