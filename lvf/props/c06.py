"""C06 - replay buffer keeps the most recent transitions and samples only stored ones.

MC : spec/mc/MC_ReplayRing (ReplayRing.tla) - all capacities x all insertion histories x 1..2 rings.
C2S: real ReplayBuffer.add / .sample (single rings, independently filled stacked rings, vmapped adds; pytree-structured
     observations, discrete and box actions, policy states) -> spec/trace/Trace_ReplayRing."""
from __future__ import annotations

import copy
import itertools

from .. import tlc, tracecheck
from ..core import Ctx, Machinery, Report, Violation

LEVEL = "model_checking"
SPEC = "trace/Trace_ReplayRing.tla"


def gen_cases(ctx: Ctx) -> list:
    rng = ctx.rng
    cases = []
    # exhaustive small: every order of insertions into 2 rings, cap 1..3, sampling every size at every point
    for cap in (1, 2, 3):
        L = ctx.pick(4, 6)
        for order in itertools.product([0, 1], repeat=L):
            if rng.random() < ctx.pick(0.35, 1.0):
                cases.append(dict(kind="flat", cap=cap, N=2, adds=list(order), samples=[(n, None) for n in range(1, L + 1)],
                                  seed=rng.randrange(2 ** 31), vmapped=False))
    kinds = ["flat", "dict", "tuple_boxact"]
    for i in range(ctx.pick(60, 240)):
        cap = rng.choice(ctx.pick([2, 3, 8], [1, 2, 3, 5, 8, 16]))
        N = rng.choice([1, 1, 2, 3])
        wraps = rng.choice([0, 1, 2, 3, 5])
        L = min(cap * (wraps + 1) + rng.randint(0, cap), 48)
        vm = rng.random() < 0.3
        if vm:
            adds = max(1, L // N)
            pts = sorted({rng.randint(1, adds) for _ in range(3)})
        else:
            adds = [rng.randrange(N) for _ in range(L)]
            pts = sorted({rng.randint(1, max(L, 1)) for _ in range(3)})
        samples = [(p, None if (ctx.thorough and rng.random() < 0.3) else rng.choice([1, 2, 3, cap * N, cap])) for p in pts]
        cases.append(dict(kind=kinds[i % 3], cap=cap, N=N, adds=adds, samples=samples, seed=rng.randrange(2 ** 31), vmapped=vm))
    return cases


def violations_from(v, traces, cases):
    out = []
    for i, (l, clauses) in sorted(v.rejected.items()):
        ev = traces[i]["events"][l - 1] if 1 <= l <= len(traces[i]["events"]) else None
        kind = "sample" if ev and ev["ev"] == "sample" else "add"
        out.append(Violation(f"C06:{kind}:" + "+".join(clauses),
                             f"ReplayBuffer.{kind} (cap={traces[i]['cap']}, rings={traces[i]['N']}, {traces[i]['meta']}) event {l}: "
                             f"failing clauses {clauses}; event={ev}", "replay", cases[i]))
    return out


def record(cases):
    import jax
    from .. import drive_replay as dr
    out = []
    for i, c in enumerate(cases):
        out.append(dr.record_replay(c["kind"], c["cap"], c["N"], c["adds"], c["samples"], c["seed"], c["vmapped"]))
        if i % 40 == 39:
            jax.clear_caches()       # every (kind, capacity, rings, batch size) is its own XLA program: do not let them pile up
    return out


HUGE = [dict(cap=2 ** 23, stored=2 ** 20, keys=8), dict(cap=2 ** 22, stored=2 ** 18, keys=24)]


def huge_ring(ctx: Ctx, rep: Report):
    """sampling clause at the other end of the scale: a ring of millions of slots, partly written, batch = all stored rows"""
    from .. import drive_replay as dr
    cases = [dict(c, seed=ctx.rng.randrange(2 ** 31)) for c in (HUGE if ctx.thorough else HUGE[:1])]
    items = [dr.sparse_ring_probe(c["cap"], c["stored"], c["keys"] * (3 if ctx.thorough else 1), c["seed"]) for c in cases]
    v = tracecheck.validate(ctx, "trace/Trace_Atoms.tla", items, "huge_ring")
    rep.traces += len(items)
    rep.evaluations += sum(i["meta"]["keys"] for i in items)
    rep.parts["sampling_from_huge_partly_written_rings"] = {"cases": [i["meta"] for i in items], "accepted": len(v.accepted), "rejected": len(v.rejected)}
    for i, (l, clauses) in sorted(v.rejected.items()):
        rep.violations.append(Violation("C06:huge_ring:" + "+".join(clauses), f"ReplayBuffer.sample {items[i]['meta']}: {clauses}", "huge_ring", cases[i]))


def run(ctx: Ctx) -> Report:
    rep = Report()
    for cfgname in ("mc/MC_ReplayRing.cfg", "mc/MC_ReplayRing_N2.cfg") + (("mc/MC_ReplayRing_big.cfg",) if ctx.thorough else ()):
        res = tlc.run("mc/MC_ReplayRing.tla", cfgname, workdir=ctx.work, workers=16, coverage=True, timeout=3000)
        tlc.require_ok(res, f"MC_ReplayRing ({cfgname})")
        rep.add_tlc(cfgname, res)
        if res.distinct < 5000 or res.coverage.get("DoAdd", (0, 0))[1] == 0:
            raise Machinery(f"MC_ReplayRing vacuity guard: {res.distinct} states, coverage {res.coverage}")
    cases = gen_cases(ctx)
    traces = record(cases)
    v = tracecheck.validate(ctx, SPEC, traces, "ring", procs=ctx.pick(4, 12))
    rep.states += v.distinct
    rep.transitions += v.generated
    rep.traces += len(traces)
    nadd = sum(1 for t in traces for e in t["events"] if e["ev"] == "add")
    nsam = sum(1 for t in traces for e in t["events"] if e["ev"] == "sample")
    rep.evaluations += nadd + nsam
    rep.parts["C2S_ReplayBuffer"] = {"traces": len(traces), "add_calls": nadd, "sample_calls": nsam,
                                     "accepted": len(v.accepted), "rejected": len(v.rejected),
                                     "stacked_ring_traces": sum(1 for t in traces if t["N"] > 1),
                                     "max_wraps": max((sum(1 for e in t["events"] if e["ev"] == "add") // (t["cap"] * t["N"]) for t in traces)),
                                     "tlc_wall_s": round(v.wall, 1)}
    rep.violations += violations_from(v, traces, cases)
    # binding self-test: a field of one slot taken from another insertion; a sampled row that was never stored
    good = [i for i in sorted(v.accepted) if any(e["ev"] == "sample" for e in traces[i]["events"]) and traces[i]["cap"] >= 2]
    if not good:
        raise Machinery("C06 self-test: no suitable accepted trace")
    m1 = copy.deepcopy(traces[good[0]])
    ev = next(e for e in m1["events"] if e["ev"] == "add")
    ev["slots"][(ev["pos"] - 1) % m1["cap"]][3] += 16          # one leaf from "another insertion"
    m2 = copy.deepcopy(traces[good[0]])
    ev = next(e for e in m2["events"] if e["ev"] == "sample")
    ev["rows"][0] = list(m2["empty"])
    vb = tracecheck.validate(ctx, SPEC, [m1, m2], "ring_selftest")
    if len(vb.rejected) != 2:
        raise Machinery(f"C06 binding self-test failed: {vb.accepted}")
    rep.parts["binding_self_test"] = {"corrupted_traces_rejected": 2}
    rep.merge(s2c_replay(ctx))
    huge_ring(ctx, rep)
    t0 = traces[good[0]]
    rep.samples.append({"kind": "ReplayBuffer trace", "cap": t0["cap"], "rings": t0["N"], "events": t0["events"][:3]})
    rep.assumptions += ["rows carry a unique tag in every leaf of every field, so a field written from another insertion is visible"]
    return rep


def s2c_replay(ctx: Ctx) -> Report:
    """spec -> code: behaviours generated by TLC (simulation of MC_ReplayRing) are executed on real ReplayBuffers; after every
    Add the projection of every real ring must equal the specification state (slot by slot, every field)."""
    import jax
    import jax.numpy as jnp
    from .. import drive_replay as dr
    from .. import tables as tb
    from lerax.buffer import ReplayBuffer
    rep = Report()
    behs = tlc.simulate("mc/MC_ReplayRing.tla", "mc/MC_ReplayRing_N2.cfg", workdir=ctx.work, num=ctx.pick(24, 200), depth=9, seed=ctx.seed + 5)
    kinds = ["flat", "dict", "tuple_boxact"]
    n_adds = 0
    for bi, beh in enumerate(behs):
        kind = kinds[bi % 3]
        cfg = beh[0][2]["cfg"]
        cap, N = cfg["cap"], cfg["N"]
        osp, asp = dr.spaces(kind)
        bufs = [ReplayBuffer(cap, osp, asp, tb.TPState(jnp.asarray(0, dtype=jnp.int32))) for _ in range(N)]
        empty = dr.slot_codes(kind, bufs[0], 0)
        prev_hist = beh[0][2]["hist"]
        for step, (name, args, state) in enumerate(beh[1:], start=1):
            hist = state["hist"]
            grown = [r for r in range(N) if len(hist[r]) == len(prev_hist[r]) + 1]
            prev_hist = hist
            if len(grown) != 1:
                continue
            e, row = grown[0] + 1, hist[grown[0]][-1]
            args = [e, row]
            bufs[e - 1] = dr._add(bufs[e - 1], dr.row_args(kind, row))
            n_adds += 1
            for r in range(N):
                spec_ring = state["rings"][r] if isinstance(state["rings"], list) else state["rings"][r + 1]
                host = jax.device_get(bufs[r])
                real = dr.ring_proj(kind, host, cap)
                slots = spec_ring["slots"]
                want = [(empty if slots[i] == 0 else dr.codes(kind, *jax.device_get(dr.row_args(kind, slots[i])))) for i in range(cap)]
                if real != want or int(host.position) != spec_ring["pos"]:
                    rep.violations.append(Violation("C06:s2c:ring_state_differs",
                                                    f"after step {step} ({name}{args}) of a TLC behaviour the real ring {r + 1} (cap {cap}, kind {kind}) is "
                                                    f"pos={int(host.position)} slots={real} but the specification says pos={spec_ring['pos']} slots={want}",
                                                    "s2c", {"kind": kind, "cap": cap, "N": N, "step": step}))
                    break
    rep.traces += len(behs)
    rep.evaluations += n_adds
    rep.parts["S2C_ReplayRing_behaviours"] = {"tlc_behaviours_replayed": len(behs), "adds": n_adds}
    return rep


def replay(ctx: Ctx, driver: str, case: dict) -> Report:
    if driver == "s2c":
        return s2c_replay(ctx)
    if driver == "huge_ring":
        from .. import drive_replay as dr
        rep = Report()
        it = dr.sparse_ring_probe(case["cap"], case["stored"], case["keys"], case["seed"])
        v = tracecheck.validate(ctx, "trace/Trace_Atoms.tla", [it], "replay")
        rep.traces = 1
        for i, (l, clauses) in v.rejected.items():
            rep.violations.append(Violation("C06:huge_ring:" + "+".join(clauses), str(it["meta"]), driver, case))
        return rep
    rep = Report()
    traces = record([case])
    v = tracecheck.validate(ctx, SPEC, traces, "replay")
    rep.traces = 1
    rep.violations += violations_from(v, traces, [case])
    return rep
