"""C02 - environments stay inside their declared spaces with well-typed signals.

There is no discrete model of diffrax / MJX dynamics: the specification (EnvOpaque.tla) contributes the episode envelope
(so that a membership failure after an auto-reset is attributed to the right state) and the typing invariant "every Sig*
atom is TRUE in every state of every trace"; membership itself is an atom evaluated by an independent numpy oracle (shape,
dtype kind, low <= x <= high, not NaN) - not by space.contains, which is C14's subject.
MC : spec/mc/MC_EnvOpaque.   C2S: rollouts of every built-in environment class x constructor options x wrapper stacks under
sampled and corner action schedules -> Trace_EnvOpaque."""
from __future__ import annotations

from ..core import Ctx, Report
from . import builtin_env as be

LEVEL = "model_checking"


def is_sig(c: str) -> bool:
    return c.startswith("Sig")


def search(ctx: Ctx) -> Report:
    """bound-corner action sequences found by an evolutionary search that pushes every observation component to its extremes"""
    from .. import tracecheck
    from ..core import Violation
    rep = Report()
    from lerax.env.classic_control import ContinuousMountainCar, MountainCar
    envs = [(n, mk) for (n, kw, mk) in be.classic_envs(ctx) if not kw and n != "CartPole"]
    # with the default goal the mountain cars terminate before the right wall matters: an unreachable goal velocity keeps them running
    envs += [("MountainCar", lambda: MountainCar(goal_velocity=0.1)), ("ContinuousMountainCar", lambda: ContinuousMountainCar(goal_velocity=0.1))]
    cases = [dict(env=n, variant=(i >= len(envs) - 2), horizon=ctx.pick(256, 512), pop=ctx.pick(48, 128), gens=ctx.pick(6, 16),
                  seed=ctx.rng.randrange(2 ** 31)) for i, (n, _) in enumerate(envs)]
    traces = [be.extremal_search(c["env"], mk(), c["horizon"], c["pop"], c["gens"], c["seed"]) for c, (_, mk) in zip(cases, envs)]
    v = tracecheck.validate(ctx, be.SPEC, traces, "c02_search")
    rep.states += v.distinct
    rep.transitions += v.generated
    rep.traces += len(traces)
    rep.evaluations += sum(t["meta"]["observations_checked"] for t in traces)
    rep.parts["C2S_extremal_search"] = {"searches": [t["meta"] for t in traces], "accepted": len(v.accepted), "rejected": len(v.rejected)}
    for i, (l, clauses) in sorted(v.rejected.items()):
        rep.violations.append(Violation(f"C02:{cases[i]['env']}:" + "+".join(clauses) + ":extremal_search",
                                        f"{cases[i]['env']}: an in-space bang-bang action sequence found by search leaves the declared spaces: "
                                        f"{clauses}; extremes reached {traces[i]['meta']['extremes_reached']}", "search", cases[i]))
    return rep


def run(ctx: Ctx) -> Report:
    rep = be.run_traces(ctx, "C02", is_sig, families=("classic", "mujoco"))
    rep.merge(search(ctx))
    if ctx.thorough:
        try:
            from . import g1
            rep.merge(g1.run_c02(ctx))
        except ImportError:
            rep.notes.append("Unitree G1 rollouts: driver not present")
    rep.undecided += ["membership for every reachable continuous state: reachable states are sampled along trajectories "
                      "(random and bound-corner action schedules), not enumerated"]
    rep.assumptions += ["membership / typing are atoms computed by a numpy oracle independent of lerax's space classes"]
    return rep


def replay(ctx: Ctx, driver: str, case: dict) -> Report:
    if driver == "search":
        from .. import tracecheck
        from ..core import Violation
        rep = Report()
        mk = next(m for (n, kw, m) in be.classic_envs(ctx) if n == case["env"] and not kw)
        if case.get("variant"):
            from lerax.env import classic_control as cc
            mk = lambda: getattr(cc, case["env"])(goal_velocity=0.1)
        tr = be.extremal_search(case["env"], mk(), case["horizon"], case["pop"], case["gens"], case["seed"])
        v = tracecheck.validate(ctx, be.SPEC, [tr], "replay")
        for i, (l, clauses) in v.rejected.items():
            rep.violations.append(Violation(f"C02:{case['env']}:" + "+".join(clauses) + ":extremal_search", str(tr["meta"]), "search", case))
        rep.traces = 1
        return rep
    return be.replay(ctx, driver, case, pid="C02", only=is_sig)
