"""C02 - environments stay inside their declared spaces with well-typed signals.

There is no discrete model of diffrax / MJX dynamics: the specification (EnvOpaque.tla) contributes the episode envelope
(so that a membership failure after an auto-reset is attributed to the right state) and the typing invariant "every Sig*
atom is TRUE in every state of every trace"; membership itself is an atom evaluated by an independent numpy oracle (shape,
dtype kind, low <= x <= high, not NaN) - not by space.contains, which is C14's subject.
MC : spec/mc/MC_EnvOpaque.   C2S: rollouts of every built-in environment class x constructor options x wrapper stacks under
sampled and corner action schedules -> Trace_EnvOpaque."""
from __future__ import annotations

from ..core import Ctx, Report
from . import builtin_env as be

LEVEL = "model_checking"


def is_sig(c: str) -> bool:
    return c.startswith("Sig")


def run(ctx: Ctx) -> Report:
    rep = be.run_traces(ctx, "C02", is_sig, families=("classic", "mujoco"))
    if ctx.thorough:
        try:
            from . import g1
            rep.merge(g1.run_c02(ctx))
        except ImportError:
            rep.notes.append("Unitree G1 rollouts: driver not present")
    rep.undecided += ["membership for every reachable continuous state: reachable states are sampled along trajectories "
                      "(random and bound-corner action schedules), not enumerated"]
    rep.assumptions += ["membership / typing are atoms computed by a numpy oracle independent of lerax's space classes"]
    return rep


def replay(ctx: Ctx, driver: str, case: dict) -> Report:
    return be.replay(ctx, driver, case, pid="C02", only=is_sig)
