"""C14 - spaces: exact membership, member samples, coherent equality.

MC : spec/mc/MC_Spaces (Spaces.tla): laws of the term model on the generated universe.
S2C/C2S: every (space, candidate value) case, canonical(), sample() (with Discrete masks), flatten_sample, ==, hash and the
     Gymnasium round trip of the real space classes, validated case by case by TLC (Trace_Spaces)."""
from __future__ import annotations

import copy
import json
import random

from .. import tlc, tracecheck
from ..core import Ctx, Machinery, Report, Violation

LEVEL = "model_checking"
SPEC = "trace/Trace_Spaces.tla"


def build_universe(ctx: Ctx):
    from .. import drive_spaces as ds
    rng = random.Random(1414 + ctx.seed)
    spaces = ds.universe(rng, ctx.pick(24, 150))
    probes = {i: ds.probes_for(rng, t, ctx.pick(8, 24)) for i, t in enumerate(spaces)}
    return spaces, probes, rng


def key_of(t, ev, clauses):
    kind = t["k"]
    detail = ""
    if ev["ev"] == "contains":
        v = ev["v"]
        if v["k"] == "foreign":
            detail = {1: "string", 2: "None", 3: "ragged"}.get(v["f"], "foreign")
        elif v["k"] == "arr":
            vals = v["vals"]
            if tuple(v["shape"]) != tuple(t["shape"] if kind in ("Box", "MultiBinary") else ([] if kind == "Discrete" else [len(t["nvec"])])):
                detail = "wrong_shape"
            elif any(c < 0 and c != -100000 for c in vals):
                detail = "negative"
            elif any(c == 99999 for c in vals):
                detail = "nan"
            else:
                detail = "value"
        else:
            detail = v["k"]
    elif ev["ev"] == "eq":
        detail = "equal_terms" if ev["other"] == t else "different_terms"
    return f"C14:{kind}.{ev['ev']}:{'+'.join(clauses)}:{detail}"


def run(ctx: Ctx) -> Report:
    from .. import drive_spaces as ds
    rep = Report()
    spaces, probes, rng = build_universe(ctx)
    u = {"spaces": spaces, "probes": [{"s": i + 1, "v": v} for i, ps in probes.items() for v in ps]}
    f = ctx.work / "spaces_universe.json"
    f.write_text(json.dumps(u))
    res = tlc.run("mc/MC_Spaces.tla", workdir=ctx.work, workers=8, env={"CFG_FILE": str(f)}, timeout=1800)
    tlc.require_ok(res, "MC_Spaces")
    rep.add_tlc("MC_Spaces", res, spaces=len(spaces), probes=len(u["probes"]))
    traces, cases = [], []
    for i, t in enumerate(spaces):
        others = [copy.deepcopy(t)] + [spaces[j] for j in rng.sample(range(len(spaces)), min(6, len(spaces)))]
        # near misses: a prefix / extension of a composite, other parameters of a leaf
        if t["k"] in ("Tuple", "Dict") and len(t["subs"]) > 1:
            o = copy.deepcopy(t)
            o["subs"], o["keys"] = o["subs"][:-1], o["keys"][:len(o["subs"]) - 1] if t["k"] == "Dict" else []
            others.append(o)
        if t["k"] in ("Tuple", "Dict") and len(t["subs"]) < 3:
            o = copy.deepcopy(t)
            o["subs"] = o["subs"] + [o["subs"][0]]
            if t["k"] == "Dict":
                o["keys"] = o["keys"] + ["z"]
            others.append(o)
        keys = [rng.randrange(10 ** 6) for _ in range(ctx.pick(6, 32))]
        for ev in ds.rec_space(t, probes[i], others, keys, rng):
            traces.append({"sp": t, "events": [ev]})
            cases.append({"sp": t, "ev": ev})
    v = tracecheck.validate(ctx, SPEC, traces, "spaces", procs=ctx.pick(4, 12))
    rep.states += v.distinct
    rep.transitions += v.generated
    rep.traces += len(traces)
    rep.evaluations += len(traces)
    kinds = {}
    for c in cases:
        kinds[c["ev"]["ev"]] = kinds.get(c["ev"]["ev"], 0) + 1
    rekeyed = sum(1 for c in cases if c["ev"].get("rekeyed"))
    rep.parts["S2C_spaces"] = {"spaces": len(spaces), "cases": kinds, "flatten_of_rekeyed_dictionary_members": rekeyed,
                               "accepted": len(v.accepted), "rejected": len(v.rejected)}
    if not rekeyed and not rep.violations and any(t["k"] == "Dict" and len(t["keys"]) >= 2 for t in spaces):
        rep.notes.append("no re-keyed dictionary value was accepted as a member by the implementation: flatten judged on space-ordered values only")
    for i, (l, clauses) in sorted(v.rejected.items()):
        t, ev = cases[i]["sp"], cases[i]["ev"]
        rep.violations.append(Violation(key_of(t, ev, clauses), f"space {t}: {ev['ev']} violates {clauses}: "
                                        f"{ {k: x for k, x in ev.items() if k != 'other'} }", "space_case", cases[i]))
    rep.exhaustive = False
    good = [i for i in sorted(v.accepted) if cases[i]["ev"]["ev"] == "contains"]
    m = copy.deepcopy(traces[good[0]])
    m["events"][0]["res"] = not m["events"][0]["res"]
    if 0 not in tracecheck.validate(ctx, SPEC, [m], "spaces_selftest").rejected:
        raise Machinery("C14 binding self-test failed")
    rep.samples.append({"kind": "membership case", "space": traces[good[0]]["sp"], "event": traces[good[0]]["events"][0]})
    rep.assumptions += ["probes are restricted to inputs whose verdict the property text fixes (no python bools for Discrete, no plain "
                        "dicts for Dict, no reordered Dict keys, Box probes are float arrays)",
                        "Dict spaces in the universe list their keys in sorted order (Gymnasium's own order)"]
    return rep


def replay(ctx: Ctx, driver: str, case: dict) -> Report:
    from .. import drive_spaces as ds
    rep = Report()
    t, ev = case["sp"], case["ev"]
    space = ds.build_space(t)
    rng = random.Random(0)
    if ev["ev"] == "contains":
        new = ds.rec_contains(space, t, ev["v"])
    elif ev["ev"] == "eq":
        new = [e for e in ds.rec_space(t, [], [ev["other"]], [], rng) if e["ev"] == "eq"][0]
    elif ev["ev"] == "gym":
        new = [e for e in ds.rec_space(t, [], [], [], rng) if e["ev"] == "gym"][0]
    elif ev["ev"] == "eq_near":
        new = [e for e in ds.rec_space(t, [], [], [], rng) if e["ev"] == "eq_near"][0]
    elif ev["ev"] == "canonical":
        new = [e for e in ds.rec_space(t, [], [], [], rng) if e["ev"] == "canonical"][0]
    else:
        new = ev      # samples depend on the key sequence of the original run: re-validate the recorded event
    v = tracecheck.validate(ctx, SPEC, [{"sp": t, "events": [new]}], "replay")
    rep.traces = 1
    for i, (l, clauses) in v.rejected.items():
        rep.violations.append(Violation(key_of(t, new, clauses), f"space {t}: {new}", driver, {"sp": t, "ev": new}))
    return rep
