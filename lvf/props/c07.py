"""C07 - TD targets bootstrap through truncation, never through termination.

MC : spec/mc/MC_Losses (Losses.tla): mask equivalence on all flag combinations, Double-DQN structure.
S2C: the static DQN.dqn_loss / dqn_loss_grad on tabular Q policies (loss value and the whole gradient table = semi-gradient
     of the online network), and the real SAC.sac_train with constant critics / policy (q_loss value; actor gating, critic
     independence, targets untouched) - every case judged by TLC (Trace_Losses)."""
from __future__ import annotations

import copy
import itertools

from .. import tlc, tracecheck
from ..core import Ctx, Machinery, Report, Violation

LEVEL = "model_checking"
SPEC = "trace/Trace_Losses.tla"
FLAGS = [(False, False), (True, False), (True, True), (False, True)]


def run_mc(ctx: Ctx, rep: Report):
    res = tlc.run("mc/MC_Losses.tla", workdir=ctx.work, workers=16, timeout=1800)
    tlc.require_ok(res, "MC_Losses")
    rep.add_tlc("MC_Losses", res)
    if res.distinct < 100000:
        raise Machinery("MC_Losses vacuity guard")


def gen_cases(ctx: Ctx):
    rng = ctx.rng
    cases = []
    # DQN: every flag combination for B = 1..3 rows (exhaustive over flags for B <= 2, sampled for 3), random tables/rows
    for B in (1, 2, 3):
        combos = list(itertools.product(FLAGS, repeat=B))
        rng.shuffle(combos)
        for fl in combos[:ctx.pick(40, 64)]:
            for _ in range(ctx.pick(1, 3)):
                nO, nA = 2, rng.choice([2, 3])
                rows = [dict(o=rng.randint(1, nO), a=rng.randint(1, nA), r=rng.choice([-1, 0, 2]), o2=rng.randint(1, nO),
                             done=d, timeout=t) for (d, t) in fl]
                Qon = [[rng.choice([0, 1, 3, -2]) for _ in range(nA)] for _ in range(nO)]
                Qtg = [[rng.choice([0, 1, 3, -2]) for _ in range(nA)] for _ in range(nO)]
                same = rng.random() < 0.25
                c = dict(rows=rows, Qon=Qon, Qtg=(copy.deepcopy(Qon) if same else Qtg), g2=rng.choice([1, 2]))
                cases.append(("dqn", c, same))
    # SAC
    for B in (1, 2, 3):
        combos = list(itertools.product(FLAGS, repeat=B))
        rng.shuffle(combos)
        for fl in combos[:ctx.pick(8, 32)]:
            rows = [dict(o=1, a=1, r=rng.choice([-1, 0, 2]), o2=1, done=d, timeout=t) for (d, t) in fl]
            c = dict(rows=rows, q1=rng.choice([5, -2, 0, 8]), q2=rng.choice([5, -2, 1, 3]), q1t=rng.choice([6, 3, -4]),
                     q2t=rng.choice([6, 3, -1]), lp=rng.choice([-2, -6, 1]), g2=rng.choice([1, 2]), a=rng.choice([1, 1, 2]))
            cases.append(("sac", c, False))
    # a DQN object configured with a non-default discount: its real dqn_train against the static loss with that discount
    for g in (0.5, 0.8, 0.0, 1.0)[:ctx.pick(2, 4)]:
        for _ in range(ctx.pick(2, 6)):
            cases.append(("configured_dqn", g, rng.randrange(10 ** 6)))
    # the update inside a real iteration() bootstraps from the target network(s) held in the algorithm state
    for kind in ("DQN", "SAC"):
        for _ in range(ctx.pick(2, 6)):
            cases.append(("target_dependence", kind, rng.randrange(10 ** 6)))
    return cases


def record(case):
    from .. import drive_losses as dl
    if case[0] == "target_dependence":
        from .. import drive_identity as di
        return dict(di.target_dependence_case(case[1], case[2]), c={})
    if case[0] == "configured_dqn":
        from .. import drive_identity as di
        return dict(di.dqn_routing_case(case[1], case[2]), c={})
    kind, c, same = case
    return dl.dqn_case(c, same) if kind == "dqn" else dl.sac_case(c)


def judge(ctx, rep, pid, evs, cases, tag):
    items = [{"ev": e} for e in evs]
    v = tracecheck.validate(ctx, SPEC, items, tag, procs=ctx.pick(2, 8))
    rep.states += v.distinct
    rep.transitions += v.generated
    rep.traces += len(items)
    rep.evaluations += len(items)
    kinds = {}
    for e in evs:
        kinds[e["ev"]] = kinds.get(e["ev"], 0) + 1
    rep.parts[f"S2C_{tag}"] = {"cases": kinds, "accepted": len(v.accepted), "rejected": len(v.rejected)}
    for i, (l, clauses) in sorted(v.rejected.items()):
        e = evs[i]
        flags = sorted({(r["done"], r["timeout"]) for r in e["c"].get("rows", [])})
        extra = f":flags={flags}" if e["ev"] in ("dqn", "sac") else (f":clipv={e['c'].get('clipv')}" if e["ev"] == "ppo" else "")
        rep.violations.append(Violation(f"{pid}:{e['ev']}:" + "+".join(clauses) + (":clipv" if e["ev"] == "ppo" and e["c"].get("clipv") else ""),
                                        f"{e['ev']} loss case violates {clauses}{extra}: { {k: x for k, x in e.items()} }", "loss_case",
                                        {"case": list(cases[i])}))
    return v


def run(ctx: Ctx) -> Report:
    rep = Report()
    run_mc(ctx, rep)
    cases = gen_cases(ctx)
    evs = [record(c) for c in cases]
    v = judge(ctx, rep, "C07", evs, cases, "td_losses")
    good = next(i for i in sorted(v.accepted) if evs[i]["ev"] == "dqn")
    m = copy.deepcopy(evs[good])
    m["grad_x"][0][0] += 5000
    m2 = copy.deepcopy(evs[next(i for i in sorted(v.accepted) if evs[i]["ev"] == "sac")])
    m2["loss_x"] += 500
    vb = tracecheck.validate(ctx, SPEC, [{"ev": m}, {"ev": m2}], "td_selftest")
    if len(vb.rejected) != 2:
        raise Machinery("C07 binding self-test failed")
    rep.parts["binding_self_test"] = {"corrupted_cases_rejected": 2}
    rep.samples.append({"kind": "DQN loss case", **{k: x for k, x in evs[good].items()}})
    rep.assumptions += ["tabular / constant networks: the claim is about the structure of the target formula, which these determine",
                        "exact on dyadic inputs; tolerance 2e-5"]
    rep.undecided += ["arbitrary real-valued network parameters"]
    return rep


def replay(ctx: Ctx, driver: str, case: dict) -> Report:
    rep = Report()
    cs = tuple(case["case"])
    judge(ctx, rep, "C07", [record(cs)], [cs], "replay")
    return rep
