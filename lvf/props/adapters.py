"""C13 (adapters): the Gymnasium and Gymnax adapters reproduce the trajectory of the environment they adapt.

All four adapters are driven through the *adapted* API and the recorded trajectory is validated by the same
EnvAPI trace specification that validates native lerax environments:
  (i)   LeraxToGymEnv(TableEnv under wrappers)        via gym  reset(seed) / step(a)
  (ii)  GymToLeraxEnv(harness gym.Env = table MDP)    via lerax reset / step (+ lerax TimeLimit on top)
  (iii) LeraxToGymnaxEnv(TableEnv under wrappers)     via gymnax reset / step (done = term or trunc)
  (iv)  GymnaxToLeraxEnv(harness gymnax table env)    via lerax reset / step (+ lerax TimeLimit on top)"""
from __future__ import annotations

import copy

import numpy as np

from .. import tables as tb
from .. import tracecheck
from ..core import Ctx, Machinery, Report, Violation
from . import c01


def _gym_table_env(cfg):
    import gymnasium as gym

    class GymTable(gym.Env):
        """Gymnasium environment implementing the base table MDP of cfg (no auto-reset, as Gymnasium specifies)."""

        def __init__(self):
            self.cfg = cfg
            self.action_space = gym.spaces.Discrete(cfg["nA"])
            self.observation_space = gym.spaces.Discrete(cfg["nO"])
            self.s = None
            self.calls = []

        def reset(self, *, seed=None, options=None):
            rng = np.random.default_rng(seed)
            self.s = int(self.cfg["Init"][rng.integers(len(self.cfg["Init"]))])
            self.calls.append(("reset", self.s))
            return np.int32(self.cfg["Obs"][self.s - 1]), {}

        def step(self, action):
            a = int(action)
            k = a + 1 if 0 <= a < self.cfg["nA"] else self.cfg["nA"] + 1
            s2 = self.cfg["T"][self.s - 1][k - 1]
            r = float(self.cfg["R"][self.s - 1][k - 1][s2 - 1])
            self.s = s2
            self.calls.append(("step", a, s2))
            return (np.int32(self.cfg["Obs"][s2 - 1]), r, bool(self.cfg["Term"][s2 - 1]), bool(self.cfg["ITrunc"][s2 - 1]), {})

    return GymTable()


def gen_disc_cfg(rng, tl=None):
    base = tb.gen_mdp(rng, "disc", "disc")
    base["Obs"] = list(range(base["nS"])) + [tb.NO_DISC - 1]     # observation identifies the state
    stack = [tb.wrec("TimeLimit", n=tl)] if tl else []
    return tb.with_stack(base, stack)


# ------------------------------------------------------------------------------------------------ (i)
def rec_lerax_to_gym(cache, cfg, actions, seed):
    from lerax.compatibility.gym import LeraxToGymEnv
    env = cache.get(cfg)
    g = LeraxToGymEnv(env)
    depth = len(cfg["stack"])
    _, osp = tb.outer_spaces(cfg)
    obs, _ = g.reset(seed=seed)
    evs = [dict(ev="reset", a=0, obs=tb.obs_code(osp["kind"], obs), rew=0, term=False, trunc=False,
                **tb.proj_env_state(g.state, depth))]
    for a in actions:
        act = np.int32(a) if cfg["akind"] == "disc" else np.float32(a / 4.0)
        obs, rew, term, trunc, _ = g.step(act)
        from ..drive_env import rew_int
        evs.append(dict(ev="step", a=int(a), obs=tb.obs_code(osp["kind"], obs), rew=rew_int(rew), term=bool(term),
                        trunc=bool(trunc), **tb.proj_env_state(g.state, depth)))
    return {"cfg": cfg, "events": evs}


# ------------------------------------------------------------------------------------------------ (ii)
def rec_gym_to_lerax(cfg, actions, seed):
    import jax
    import jax.numpy as jnp
    import jax.random as jr
    from lerax.compatibility.gym import GymToLeraxEnv
    from lerax.wrapper import TimeLimit
    from ..drive_env import rew_int
    base = {k: v for k, v in cfg.items()}
    genv = _gym_table_env(base)
    env = GymToLeraxEnv(genv)
    tls = [w for w in cfg["stack"] if w["kind"] == "TimeLimit"]
    if tls:
        env = TimeLimit(env, tls[0]["n"])

    def proj(state):
        jax.effects_barrier()
        return {"s": int(genv.s), "cnt": [int(state.step_count)] if tls else []}

    k0, k1 = jr.split(jr.key(seed))
    state, obs, _ = env.reset(key=k0)
    evs = [dict(ev="reset", a=0, obs=int(obs), rew=0, term=False, trunc=False, **proj(state))]
    for a, k in zip(actions, jr.split(k1, len(actions))):
        state, obs, rew, term, trunc, _ = env.step(state, jnp.asarray(a, dtype=jnp.int32), key=k)
        evs.append(dict(ev="step", a=int(a), obs=int(obs), rew=rew_int(rew), term=bool(term), trunc=bool(trunc), **proj(state)))
    return {"cfg": cfg, "events": evs, "meta": {"calls": list(genv.calls)}}


# ------------------------------------------------------------------------------------------------ (iii)
def rec_lerax_to_gymnax(cache, cfg, actions, seed):
    import jax.numpy as jnp
    import jax.random as jr
    from lerax.compatibility.gymnax import LeraxToGymnaxEnv
    from ..drive_env import rew_int
    env = cache.get(cfg)
    gx = LeraxToGymnaxEnv(env)
    params = gx.default_params
    depth = len(cfg["stack"])
    _, osp = tb.outer_spaces(cfg)
    k0, k1 = jr.split(jr.key(seed))
    obs, state = gx.reset(k0, params)
    evs = [dict(ev="reset", a=0, obs=tb.obs_code(osp["kind"], obs), rew=0, term=False, trunc=False,
                **tb.proj_env_state(state.env_state, depth))]
    for a, k in zip(actions, jr.split(k1, len(actions))):
        act = jnp.asarray(a, dtype=jnp.int32) if cfg["akind"] == "disc" else jnp.asarray(a / 4.0, dtype=jnp.float32)
        obs, state, rew, done, _ = gx.step(k, state, act, params)
        evs.append(dict(ev="gxstep", a=int(a), obs=tb.obs_code(osp["kind"], obs), rew=rew_int(rew), term=bool(done), trunc=False,
                        **tb.proj_env_state(state.env_state, depth)))
    return {"cfg": cfg, "events": evs}


# ------------------------------------------------------------------------------------------------ (iv)
_GX_CACHE = {}


def _gymnax_table_env():
    """A Gymnax environment implementing a table MDP whose tables live in its params (so one object serves all)."""
    if "env" in _GX_CACHE:
        return _GX_CACHE["env"]
    import jax
    import jax.numpy as jnp
    from flax import struct
    from gymnax.environments import environment as E
    from gymnax.environments import spaces

    @struct.dataclass
    class GState(E.EnvState):
        s: jax.Array

    @struct.dataclass
    class GParams(E.EnvParams):
        T: jax.Array = None
        R: jax.Array = None
        Term: jax.Array = None
        Init: jax.Array = None
        nInit: jax.Array = None
        Obs: jax.Array = None

    class GxTable(E.Environment):
        @property
        def default_params(self):
            # valid but *different* from every table the harness supplies: one initial state, the last (padding) row of the tables.
            # An adapter that ignores the params it was given then produces a wrong trajectory instead of a crash in this class.
            n = tb.NS_MAX + 1
            return GParams(max_steps_in_episode=1000, T=jnp.full((n, n), n - 1, dtype=jnp.int32), R=jnp.zeros((n, n, n), dtype=jnp.float32),
                           Term=jnp.zeros((n,), dtype=bool), Init=jnp.full((tb.NI_MAX,), n - 1, dtype=jnp.int32),
                           nInit=jnp.asarray(1, dtype=jnp.int32), Obs=jnp.full((n,), tb.NO_DISC - 1, dtype=jnp.int32))

        def step_env(self, key, state, action, params):
            s2 = params.T[state.s, action]
            r = params.R[state.s, action, s2]
            st = GState(time=state.time + 1, s=s2)
            return params.Obs[s2], st, r, params.Term[s2], {}

        def reset_env(self, key, params):
            s = params.Init[jax.random.randint(key, (), 0, params.nInit)]
            return params.Obs[s], GState(time=jnp.asarray(0), s=s)

        def get_obs(self, state, params=None, key=None):
            return params.Obs[state.s]

        def is_terminal(self, state, params):
            return params.Term[state.s]

        @property
        def name(self):
            return "GxTable"

        @property
        def num_actions(self):
            return 3

        def action_space(self, params=None):
            return spaces.Discrete(3)

        def observation_space(self, params):
            return spaces.Discrete(tb.NO_DISC)

    _GX_CACHE["env"] = (GxTable(), GParams)
    return _GX_CACHE["env"]


def rec_gymnax_to_lerax(cfg, actions, seed):
    import jax.numpy as jnp
    import jax.random as jr
    from lerax.compatibility.gymnax import GymnaxToLeraxEnv
    from lerax.wrapper import TimeLimit
    from ..drive_env import rew_int
    gx, GParams = _gymnax_table_env()
    a = tb.arrays_of(cfg)
    params = GParams(max_steps_in_episode=1000, T=a["T"], R=a["R"], Term=a["Term"], Init=a["Init"], nInit=a["nInit"], Obs=a["Obs"])
    env = GymnaxToLeraxEnv(gx, params)
    tls = [w for w in cfg["stack"] if w["kind"] == "TimeLimit"]
    if tls:
        env = TimeLimit(env, tls[0]["n"])

    def proj(state):
        inner = state.env_state if tls else state
        return {"s": int(inner.env_state.s) + 1, "cnt": [int(state.step_count)] if tls else []}

    k0, k1 = jr.split(jr.key(seed))
    state, obs, _ = env.reset(key=k0)
    evs = [dict(ev="reset", a=0, obs=int(obs), rew=0, term=False, trunc=False, **proj(state))]
    for act, k in zip(actions, jr.split(k1, len(actions))):
        state, obs, rew, term, trunc, _ = env.step(state, jnp.asarray(act, dtype=jnp.int32), key=k)
        evs.append(dict(ev="step", a=int(act), obs=int(obs), rew=rew_int(rew), term=bool(term), trunc=bool(trunc), **proj(state)))
    return {"cfg": cfg, "events": evs}


# ------------------------------------------------------------------------------------------------ (v)
def rec_gym_under_collector(cfg, seed):
    """The real on-policy collector (PPO) driving GymToLeraxEnv(harness gym.Env): an environment with hidden Python
    state exposes conditional-execution mistakes that pure environments mask (one gym reset per episode end)."""
    import jax
    from lerax.compatibility.gym import GymToLeraxEnv
    from lerax.wrapper import TimeLimit
    from .. import drive_onpolicy as dop
    genv = _gym_table_env(cfg)
    env = GymToLeraxEnv(genv)
    tls = [w for w in cfg["stack"] if w["kind"] == "TimeLimit"]
    if tls:
        env = TimeLimit(env, tls[0]["n"])
    # the Gym state is only known to the harness environment: the carried table state is read from its call log
    log_pos = []

    def proj(st):
        jax.effects_barrier()
        return {"s": int(genv.s), "cnt": [int(st.step_count)] if tls else []}

    # one iteration only: `before` is projected after the run in record_onpolicy, so take the carried state from the call log
    trs = dop.record_onpolicy(None, cfg, "PPO", 1, 1, seed, env=env, state_proj=proj)
    calls = list(genv.calls)
    first_reset = next(c for c in calls if c[0] == "reset")
    trs[0]["init"]["s"] = first_reset[1]
    trs[0]["init"]["cnt"] = [0] if tls else []
    trs[0]["meta"]["calls"] = calls
    return trs[0]


# ------------------------------------------------------------------------------------------------
def gen_cases(ctx: Ctx):
    rng = ctx.rng
    cases = []
    for i in range(ctx.pick(8, 40)):
        base = tb.gen_mdp(rng, ["disc", "box"][i % 2], ["disc", "box"][(i // 2) % 2])
        cfg = tb.with_stack(base, tb.gen_stack(rng, base, rng.choice([0, 1, 2]), force_tl=0.5))
        acts = [rng.choice(tb.candidate_actions(cfg)) for _ in range(12)]
        cases.append({"kind": "lerax_to_gym", "cfg": cfg, "actions": acts, "seed": rng.randrange(2 ** 31)})
    for i in range(ctx.pick(10, 50)):
        cfg = gen_disc_cfg(rng, tl=rng.choice([None, 2, 3, 4]))
        acts = [rng.randrange(3) for _ in range(10)]
        cases.append({"kind": "gym_to_lerax", "cfg": cfg, "actions": acts, "seed": rng.randrange(2 ** 31)})
    for i in range(ctx.pick(5, 20)):
        base = tb.gen_mdp(rng, ["disc", "box"][i % 2], "disc")
        cfg = tb.with_stack(base, tb.gen_stack(rng, base, rng.choice([0, 1, 2]), force_tl=0.6))
        acts = [rng.choice(tb.candidate_actions(cfg)) for _ in range(14)]
        cases.append({"kind": "lerax_to_gymnax", "cfg": cfg, "actions": acts, "seed": rng.randrange(2 ** 31)})
    for i in range(ctx.pick(10, 50)):
        cfg = gen_disc_cfg(rng, tl=rng.choice([None, 2, 3, 4]))
        cfg["ITrunc"] = [False] * len(cfg["ITrunc"])        # Gymnax has no truncation signal of its own
        acts = [rng.randrange(3) for _ in range(10)]
        cases.append({"kind": "gymnax_to_lerax", "cfg": cfg, "actions": acts, "seed": rng.randrange(2 ** 31)})
    for i in range(ctx.pick(6, 30)):
        cfg = gen_disc_cfg(rng, tl=rng.choice([None, 2, 3]))
        cfg = tb.gen_ac_policy(rng, cfg)
        cfg.update(g2=rng.choice([1, 2]), l2=rng.choice([1, 2]), H=6, an=2)
        cases.append({"kind": "gym_under_collector", "cfg": cfg, "seed": rng.randrange(2 ** 31)})
    return cases


def record_case(cache, c):
    k = c["kind"]
    if k == "lerax_to_gym":
        return rec_lerax_to_gym(cache, c["cfg"], c["actions"], c["seed"])
    if k == "gym_to_lerax":
        return rec_gym_to_lerax(c["cfg"], c["actions"], c["seed"])
    if k == "lerax_to_gymnax":
        return rec_lerax_to_gymnax(cache, c["cfg"], c["actions"], c["seed"])
    return rec_gymnax_to_lerax(c["cfg"], c["actions"], c["seed"])


def viol(v, traces, cases):
    out = []
    for i, (l, clauses) in sorted(v.rejected.items()):
        ev = traces[i]["events"][l - 1] if 1 <= l <= len(traces[i]["events"]) else None
        out.append(Violation(f"C13:adapter:{cases[i]['kind']}:" + "+".join(clauses),
                             f"adapter {cases[i]['kind']}: event {l} of the adapted trajectory is not a behaviour of the adapted "
                             f"environment: failing clauses {clauses}; event={ev}", "adapter", cases[i]))
    return out


def seeded_reset_case(cache, seed: int) -> dict:
    """Gymnasium API: reset(seed=s) makes the episode a function of s.  A used LeraxToGymEnv is reset with seeds 0 and s twice
    each and driven with the same actions over a finite MDP that redraws one of three initial states at every step
    (TimeLimit(1)): the two trajectories under one seed must coincide (they do by chance with probability 3^-9)."""
    import random
    from lerax.compatibility.gym import LeraxToGymEnv
    rng = random.Random(seed)
    base = tb.gen_mdp(rng, "disc", "disc", nS=4)
    base["Init"] = [1, 2, 3]
    base["Obs"] = [0, 1, 2, 3, 5]
    cfg = tb.with_stack(base, [tb.wrec("TimeLimit", n=1)])
    g = LeraxToGymEnv(cache.get(cfg))
    acts = [rng.choice(tb.candidate_actions(cfg)) for _ in range(8)]

    def roll(s):
        obs, _ = g.reset(seed=s)
        seq = [int(np.asarray(obs))]
        for a in acts:
            obs, rew, term, trunc, _ = g.step(np.int32(a))
            seq.append((int(np.asarray(obs)), float(rew), bool(term), bool(trunc)))
        return seq
    g.reset()
    g.step(np.int32(acts[0]))
    s = 1 + rng.randrange(10 ** 6)
    # different histories precede the two uses of each seed (an ignored seed continues the adapter's own key stream)
    a1, z1 = roll(s), roll(0)
    roll(s + 1)
    z2, a2 = roll(0), roll(s)
    return {"atoms": {"SeededResetReproducesTheSameTrajectory": a1 == a2, "SeedZeroIsASeed": z1 == z2},
            "meta": {"seed": s, "first": [a1[:4], a2[:4]], "zero": [z1[:4], z2[:4]]}}


def run(ctx: Ctx) -> Report:
    rep = Report()
    cache = tb.EnvCache()
    sc = [seeded_reset_case(cache, ctx.seed * 31 + i) for i in range(ctx.pick(3, 10))]
    sv = tracecheck.validate(ctx, "trace/Trace_Atoms.tla", sc, "adapters_seeded")
    rep.traces += len(sc)
    rep.parts["lerax_to_gym_seeded_reset"] = {"cases": len(sc), "accepted": len(sv.accepted), "rejected": len(sv.rejected)}
    for i, (l, clauses) in sorted(sv.rejected.items()):
        rep.violations.append(Violation("C13:adapter:lerax_to_gym:" + "+".join(clauses),
                                        f"LeraxToGymEnv.reset(seed=...) on a used adapter: {clauses}: {sc[i]['meta']}", "adapter_seeded",
                                        {"seed": ctx.seed * 31 + i}))
    allcases = gen_cases(ctx)
    ccases = [c for c in allcases if c["kind"] == "gym_under_collector"]
    cases = [c for c in allcases if c["kind"] != "gym_under_collector"]
    ctraces = [rec_gym_under_collector(c["cfg"], c["seed"]) for c in ccases]
    cv = tracecheck.validate(ctx, "trace/Trace_OnPolicy.tla", ctraces, "adapters_collect")
    rep.states += cv.distinct
    rep.transitions += cv.generated
    rep.traces += len(ctraces)
    rep.parts["C2S_gym_adapter_under_collector"] = {"rollouts": len(ctraces), "accepted": len(cv.accepted), "rejected": len(cv.rejected)}
    for i, (l, clauses) in sorted(cv.rejected.items()):
        clauses = [c for c in clauses if not c.startswith("Stats")]
        if not clauses:
            continue
        row = ctraces[i]["rows"][l - 1] if 1 <= l <= len(ctraces[i]["rows"]) else ctraces[i]["final"]
        rep.violations.append(Violation("C13:adapter:gym_under_collector:" + "+".join(clauses),
                                        f"PPO collector over GymToLeraxEnv: row {l} is not explained by the adapted environment: "
                                        f"failing clauses {clauses}; row={row}; gym call log={ctraces[i]['meta']['calls'][:12]}",
                                        "adapter", ccases[i]))
    traces = [record_case(cache, c) for c in cases]
    v = tracecheck.validate(ctx, "trace/Trace_EnvAPI.tla", traces, "adapters", procs=ctx.pick(1, 4))
    rep.states += v.distinct
    rep.transitions += v.generated
    rep.traces += len(traces)
    rep.evaluations += sum(len(t["events"]) for t in traces)
    rep.parts["C2S_adapters"] = {k: sum(1 for c in cases if c["kind"] == k) for k in
                                 ("lerax_to_gym", "gym_to_lerax", "lerax_to_gymnax", "gymnax_to_lerax")}
    rep.parts["C2S_adapters"].update(accepted=len(v.accepted), rejected=len(v.rejected))
    rep.violations += viol(v, traces, cases)
    good = [i for i in sorted(v.accepted) if cases[i]["kind"] == "gym_to_lerax"]
    if good:
        m = copy.deepcopy(traces[good[0]])
        m["events"][3]["rew"] += 1
        if 0 not in tracecheck.validate(ctx, "trace/Trace_EnvAPI.tla", [m], "adapter_selftest").rejected:
            raise Machinery("adapter self-test failed")
    return rep


def replay(ctx: Ctx, driver: str, case: dict) -> Report:
    rep = Report()
    if driver == "adapter_seeded":
        c = seeded_reset_case(tb.EnvCache(), case["seed"])
        v = tracecheck.validate(ctx, "trace/Trace_Atoms.tla", [c], "replay")
        for i, (l, clauses) in v.rejected.items():
            rep.violations.append(Violation("C13:adapter:lerax_to_gym:" + "+".join(clauses), str(c["meta"]), driver, case))
        rep.traces = 1
        return rep
    if case["kind"] == "gym_under_collector":
        tr = rec_gym_under_collector(case["cfg"], case["seed"])
        cv = tracecheck.validate(ctx, "trace/Trace_OnPolicy.tla", [tr], "replay")
        for i, (l, clauses) in cv.rejected.items():
            clauses = [c for c in clauses if not c.startswith("Stats")]
            if clauses:
                rep.violations.append(Violation("C13:adapter:gym_under_collector:" + "+".join(clauses), f"row {l}", "adapter", case))
        rep.traces = 1
        return rep
    tr = record_case(tb.EnvCache(), case)
    v = tracecheck.validate(ctx, "trace/Trace_EnvAPI.tla", [tr], "replay")
    rep.traces = 1
    rep.violations += viol(v, [tr], [case])
    return rep
