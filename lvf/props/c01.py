"""C01 - Gym-style step/reset honours episode boundaries (auto-reset contract).

MC : spec/mc/MC_EnvAPI  (EnvAPI.tla over MDP.tla) - all small configurations x all action histories.
C2S: real env.reset/env.step on TableEnv under real wrapper stacks -> spec/trace/Trace_EnvAPI.
     plus the built-in environments with opaque dynamics -> spec/trace/Trace_EnvOpaque (see builtin_env.py).
"""
from __future__ import annotations

import copy
import json

from .. import tables as tb
from .. import tlc, tracecheck
from ..core import Ctx, Machinery, Report, Violation

LEVEL = "model_checking"


# ---------------------------------------------------------------------------------------------
def mc_cfgs(ctx: Ctx) -> list:
    """Small configurations for exhaustive checking: hand-made corner MDPs + a few random ones, each under
    several stacks (deterministic: independent of VERIF_SEED so that state-count floors are meaningful)."""
    import random
    rng = random.Random(20240101)
    cfgs = []
    # MDP A: terminal state reachable exactly at the time limit; two initial states
    A = dict(nS=3, nA=3, T=[[2, 3, 1, 4], [3, 1, 2, 4], [3, 3, 3, 4], [4, 4, 4, 4]],
             R=[[[(s2 - s) if (s < 3 and k < 3 and s2 < 3) else tb.POISON_R for s2 in range(4)] for k in range(4)] for s in range(4)],
             Term=[False, False, True, False], ITrunc=[False] * 4, Init=[1, 2], Obs=[0, 1, 2, 5],
             hasMask=False, Mask=[[True] * 3] * 4, akind="disc", alo=0, ahi=2, astep=1,
             okind="disc", olo=0, ohi=5, nO=6, stack=[])
    # MDP B: never terminates, inner truncation in state 2
    B = copy.deepcopy(A)
    B["Term"] = [False] * 4
    B["ITrunc"] = [False, True, False, False]
    B["Init"] = [1]
    # MDP C: box actions / box observations
    C = tb.gen_mdp(rng, "box", "box", nS=3, nA=3)
    stacks_disc = [
        [], [tb.wrec("TimeLimit", n=2)], [tb.wrec("TimeLimit", n=3), tb.wrec("TimeLimit", n=2)],
        [tb.wrec("Identity"), tb.wrec("TimeLimit", n=1)],
        [tb.wrec("TransformAction", tab=[2, 0, 1]), tb.wrec("TimeLimit", n=3), tb.wrec("ClipReward", lo=-1, hi=1)],
        [tb.wrec("TransformReward", m=2, c=1), tb.wrec("TransformObservation", n=7, tab=[3, 3, 1, 0, 6, 2])],
        [tb.wrec("FlattenObservation"), tb.wrec("TimeLimit", n=2), tb.wrec("ClipObservation")],
    ]
    for m in (A, B):
        for st in stacks_disc:
            cfgs.append(tb.with_stack(m, st))
    for _ in range(ctx.pick(20, 150)):
        st = tb.gen_stack(rng, C, rng.randint(1, 3), force_tl=0.3)
        cfgs.append(tb.with_stack(C, st))
    for _ in range(ctx.pick(60, 600)):
        m = tb.gen_mdp(rng, rng.choice(["disc", "box"]), rng.choice(["disc", "box"]), nS=rng.randint(2, 5))
        cfgs.append(tb.with_stack(m, tb.gen_stack(rng, m, rng.randint(0, 3), force_tl=0.3)))
    for c in cfgs:
        c["acts"] = tb.candidate_actions(c)
    return cfgs


def run_mc(ctx: Ctx, rep: Report):
    cfgs = mc_cfgs(ctx)
    f = ctx.work / "mc_envapi_cfgs.json"
    f.write_text(json.dumps(cfgs))
    res = tlc.run("mc/MC_EnvAPI.tla", workdir=ctx.work, workers=ctx.pick(8, 16), env={"CFG_FILE": str(f)},
                  coverage=True, timeout=1500)
    tlc.require_ok(res, "MC_EnvAPI (the specification's own properties)")
    rep.add_tlc("MC_EnvAPI", res, configurations=len(cfgs))
    floor = 12 * len(cfgs)
    if res.distinct < floor:
        raise Machinery(f"MC_EnvAPI explored only {res.distinct} distinct states (< floor {floor}): vacuity guard")
    for act in ("Reset", "DoStep"):
        if res.coverage.get(act, (0, 0))[1] == 0:
            raise Machinery(f"MC_EnvAPI: action {act} never taken")


# ---------------------------------------------------------------------------------------------
def gen_templates(ctx: Ctx, n: int) -> list:
    """random templates; template i is made to contain wrapper kind i (mod 11) where the kind fits the MDP's spaces, so that
    every documented wrapper kind occurs in every run"""
    rng = ctx.rng
    out = []
    combos = [("box", "box"), ("disc", "disc"), ("box", "disc"), ("disc", "box")]
    kinds = list(tb.ALL_KINDS)
    for i in range(n):
        ak, ok = combos[i % 4]
        base = tb.gen_mdp(rng, ak, ok, mask=(rng.random() < 0.3))
        must = kinds[i % len(kinds)]
        stack = None
        for _ in range(30):
            depth = rng.choice([1, 1, 2, 2, 3, 3])
            st = tb.gen_stack(rng, base, depth, force_tl=0.35)
            if any(w["kind"] == must for w in st):
                stack = st
                break
        if stack is None:
            stack = tb.gen_stack(rng, base, rng.choice([0, 1, 2, 3]), force_tl=0.35)
        out.append(tb.with_stack(base, stack))
    return out


def gen_actions(rng, cfg, n):
    cand = tb.candidate_actions(cfg)
    return [rng.choice(cand) for _ in range(n)]


def record(ctx: Ctx, cache, templates, per_template: int, steps: int) -> tuple[list, list]:
    from .. import drive_env
    traces, cases = [], []
    for t in templates:
        for j in range(per_template):
            cfg = t if j == 0 else tb.vary(ctx.rng, t)
            acts = gen_actions(ctx.rng, cfg, ctx.rng.randint(steps // 2, steps))
            seed = ctx.rng.randrange(2 ** 31)
            scanned = j >= 2
            traces.append(drive_env.record_envapi(cache, cfg, acts, seed, scanned=scanned))
            cases.append({"cfg": cfg, "actions": acts, "seed": seed, "scanned": scanned})
    return traces, cases


# ---------------------------------------------------------------------------------------------
# spec -> code: edge cover of the bounded model's state graph
# ---------------------------------------------------------------------------------------------
_COVER_FN = {}


def _cover_fn():
    if "f" not in _COVER_FN:
        import equinox as eqx
        import jax
        import jax.numpy as jnp

        @eqx.filter_jit
        def f(env, tl_hops, depth, s_arr, cnt_arr, acts, keys, key0):
            base = env.initial(key=key0)

            def inner(x, hops):
                for _ in range(hops):
                    x = x.env_state
                return x

            def one(s, cnt, a, k):
                st = eqx.tree_at(lambda x: inner(x, depth).s, base, s)
                for j, hops in enumerate(tl_hops):
                    st = eqx.tree_at(lambda x, hops=hops: inner(x, hops).step_count, st, cnt[j])
                out = env.step(st, a, key=k)
                return out[:5]
            return jax.vmap(one)(s_arr, cnt_arr, acts, keys)
        _COVER_FN["f"] = f
    return _COVER_FN["f"]


def edge_cover(ctx: Ctx, rep: Report, cache):
    """TLC enumerates the reachable states of the bounded model (MC_EnvAPI_cover); every action of the configuration is then
    executed from every one of these states on the real objects (state placed with eqx.tree_at), and every such step is judged
    by Trace_EnvAPI: every edge of the model's graph is exercised on the implementation, not a random sample of them."""
    import jax.numpy as jnp
    import jax.random as jr
    import numpy as np
    from .. import drive_env
    cfgs = mc_cfgs(ctx)
    cfgs = cfgs[:14] + cfgs[14:14 + ctx.pick(10, 120)]
    for i, c in enumerate(cfgs):
        c["id"] = i + 1
    f = ctx.work / "mc_envapi_cover_cfgs.json"
    f.write_text(json.dumps(cfgs))
    res = tlc.run("mc/MC_EnvAPI.tla", "mc/MC_EnvAPI_cover.cfg", workdir=ctx.work, workers=1, env={"CFG_FILE": str(f)}, timeout=1500)
    tlc.require_ok(res, "MC_EnvAPI_cover")
    rep.add_tlc("MC_EnvAPI_cover", res, configurations=len(cfgs))
    reach = {}
    for p in res.printed("ST"):
        cid, s, cnt, eplen = p
        reach.setdefault(int(cid), set()).add((int(s), tuple(int(x) for x in cnt), int(eplen)))
    if len(reach) != len(cfgs):
        raise Machinery(f"edge cover: TLC reported states for {len(reach)} of {len(cfgs)} configurations")
    fn = _cover_fn()
    traces, cases, edges = [], [], 0
    for c in cfgs:
        env = cache.get(c)
        depth = len(c["stack"])
        tl = [(i, depth - 1 - i) for i, w in enumerate(c["stack"]) if w["kind"] == "TimeLimit"]
        _, osp = tb.outer_spaces(c)
        pairs = [(st, a) for st in sorted(reach[c["id"]]) for a in c["acts"]]
        s_arr = jnp.asarray([st[0] - 1 for st, _ in pairs], dtype=jnp.int32)
        cnt_arr = jnp.asarray([[st[1][i] for i, _ in tl] or [0] for st, _ in pairs], dtype=jnp.int32)
        acts = jnp.stack([drive_env._act_array(c, a) for _, a in pairs])
        seed = ctx.rng.randrange(2 ** 31)
        keys = jr.split(jr.key(seed), len(pairs))
        outs = fn(env, tuple(h for _, h in tl), depth, s_arr, cnt_arr, acts, keys, jr.key(0))
        import jax
        outs = jax.device_get(outs)
        events = []
        for j, (st, a) in enumerate(pairs):
            events.append(dict(ev="at", a=0, obs=0, rew=0, term=False, trunc=False, s=st[0], cnt=list(st[1]), eplen=st[2]))
            st_j = jax.tree.map(lambda x: x[j], outs[0])
            events.append(dict(ev="step", a=int(a), obs=tb.obs_code(osp["kind"], outs[1][j]), rew=drive_env.rew_int(outs[2][j]),
                               term=bool(outs[3][j]), trunc=bool(outs[4][j]), **tb.proj_env_state(st_j, depth)))
        edges += len(pairs)
        traces.append({"cfg": c, "events": events})
        cases.append({"cfg": c, "pairs": [[list(st[:1]) + [list(st[1]), st[2]], a] for st, a in pairs], "seed": seed})
    v = tracecheck.validate(ctx, "trace/Trace_EnvAPI.tla", traces, "edgecover", procs=ctx.pick(4, 12))
    rep.states += v.distinct
    rep.transitions += v.generated
    rep.traces += len(traces)
    rep.evaluations += edges
    rep.parts["S2C_edge_cover"] = {"configurations": len(cfgs), "reachable_model_states": sum(len(x) for x in reach.values()),
                                   "edges_executed_on_real_objects": edges, "accepted": len(v.accepted), "rejected": len(v.rejected)}
    for i, (l, clauses) in sorted(v.rejected.items()):
        ev = traces[i]["events"][l - 1]
        pre = traces[i]["events"][l - 2] if l >= 2 else None
        stack = [w["kind"] for w in traces[i]["cfg"]["stack"]]
        rep.violations.append(Violation(key_of(clauses), f"edge of the model graph executed on the real objects is not a step of EnvAPI: "
                                        f"failing clauses {clauses}; stack={stack} from={pre} event={ev}", "edgecover",
                                        {"cfg": traces[i]["cfg"], "pair": cases[i]["pairs"][(l - 1) // 2], "seed": cases[i]["seed"]}))
    if edges < 4 * len(cfgs):
        raise Machinery(f"edge cover executed only {edges} edges for {len(cfgs)} configurations: vacuity guard")


def key_of(clauses) -> str:
    return "C01:EnvAPI:" + "+".join(clauses)


def violations_from(v: tracecheck.TraceVerdicts, traces, cases, driver="envapi") -> list:
    out = []
    for i, (l, clauses) in sorted(v.rejected.items()):
        ev = traces[i]["events"][l - 1] if 1 <= l <= len(traces[i]["events"]) else None
        stack = [w["kind"] for w in traces[i]["cfg"]["stack"]]
        out.append(Violation(key_of(clauses),
                             f"event {l} of a recorded env trace is not a behaviour of EnvAPI: failing clauses {clauses}; "
                             f"stack={stack} event={ev}", driver, cases[i]))
    return out


def self_test(ctx: Ctx, traces, verdicts):
    """Binding self-test: corrupt one logged field of an accepted trace; the specification must reject it."""
    good = [i for i in sorted(verdicts.accepted) if len(traces[i]["events"]) >= 3]
    if not good:
        raise Machinery("self-test: no accepted trace to corrupt")
    muts = []
    for field, f in (("rew", lambda x: x + 1), ("trunc", lambda x: not x), ("obs", lambda x: x + 4), ("s", lambda x: x % 2 + 1)):
        t = copy.deepcopy(traces[good[len(muts) % len(good)]])
        ev = t["events"][len(t["events"]) // 2 if field != "s" else 1]
        if field == "s":
            # a successor that is not the table successor and not initial-with-zero-counters
            ev["cnt"] = [c + 1 for c in ev["cnt"]] if ev["cnt"] else ev["cnt"]
            if not ev["cnt"]:
                ev["s"] = t["cfg"]["nS"] + 1
        else:
            ev[field] = f(ev[field])
        muts.append(t)
    v = tracecheck.validate(ctx, "trace/Trace_EnvAPI.tla", muts, "selftest")
    if len(v.rejected) != len(muts):
        raise Machinery(f"binding self-test failed: corrupted traces accepted: {sorted(v.accepted)}")
    return len(muts)


def run(ctx: Ctx) -> Report:
    rep = Report()
    run_mc(ctx, rep)
    cache = tb.EnvCache()
    templates = gen_templates(ctx, ctx.pick(14, 80))
    traces, cases = record(ctx, cache, templates, ctx.pick(60, 250), 16)
    v = tracecheck.validate(ctx, "trace/Trace_EnvAPI.tla", traces, "envapi", procs=ctx.pick(4, 12))
    rep.states += v.distinct
    rep.transitions += v.generated
    rep.traces += len(traces)
    rep.evaluations += sum(len(t["events"]) for t in traces)
    rep.parts["C2S_TableEnv"] = {"traces": len(traces), "templates": len(templates), "accepted": len(v.accepted),
                                 "rejected": len(v.rejected), "tlc_states": v.distinct, "tlc_wall_s": round(v.wall, 1),
                                 "events": sum(len(t["events"]) for t in traces)}
    rep.violations += violations_from(v, traces, cases)
    rep.parts["binding_self_test"] = {"corrupted_traces_rejected": self_test(ctx, traces, v)}
    edge_cover(ctx, rep, cache)
    t0 = traces[0]
    rep.samples.append({"kind": "EnvAPI trace (real TableEnv under real wrappers)",
                        "stack": [w["kind"] for w in t0["cfg"]["stack"]], "events": t0["events"][:6]})
    try:
        from . import builtin_env
        rep.merge(builtin_env.run_c01(ctx))
    except ImportError:
        rep.notes.append("built-in environment traces: driver not present")
    rep.assumptions += ["TableEnv/wrapper objects are built by lvf/tables.py from the same cfg record TLC reads",
                        "float32 arithmetic is exact on the dyadic values used (quarter units)"]
    rep.undecided += ["built-in (continuous) environments: value relations hold up to tolerance, not bit-for-bit"]
    return rep


def replay(ctx: Ctx, driver: str, case: dict) -> Report:
    from .. import drive_env
    rep = Report()
    if driver == "edgecover":
        import jax.numpy as jnp
        import jax.random as jr
        cache = tb.EnvCache()
        cfg = case["cfg"]
        (s, cnt, eplen), a = case["pair"]
        env = cache.get(cfg)
        depth = len(cfg["stack"])
        st = tb.make_state(env, cfg, s, cnt)
        out = env.step(st, drive_env._act_array(cfg, a), key=jr.key(case["seed"]))
        _, osp = tb.outer_spaces(cfg)
        tr = {"cfg": cfg, "events": [dict(ev="at", a=0, obs=0, rew=0, term=False, trunc=False, s=s, cnt=cnt, eplen=eplen),
                                     dict(ev="step", a=int(a), obs=tb.obs_code(osp["kind"], out[1]), rew=drive_env.rew_int(out[2]),
                                          term=bool(out[3]), trunc=bool(out[4]), **tb.proj_env_state(out[0], depth))]}
        v = tracecheck.validate(ctx, "trace/Trace_EnvAPI.tla", [tr], "replay")
        rep.traces = 1
        for i, (l, clauses) in sorted(v.rejected.items()):
            rep.violations.append(Violation(key_of(clauses), f"edge {case['pair']}: failing clauses {clauses}; event={tr['events'][1]}",
                                            "edgecover", case))
        return rep
    if driver == "envapi":
        cache = tb.EnvCache()
        tr = drive_env.record_envapi(cache, case["cfg"], case["actions"], case["seed"], scanned=case.get("scanned", True))
        v = tracecheck.validate(ctx, "trace/Trace_EnvAPI.tla", [tr], "replay")
        rep.traces = 1
        rep.violations += violations_from(v, [tr], [case])
        return rep
    from . import builtin_env
    return builtin_env.replay(ctx, driver, case)
