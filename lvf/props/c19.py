"""C19 - reported performance numbers are faithful to what happened.

MC : spec/mc/MC_EpisodeStats (latch accumulator = declarative episode sums/EMA, per environment), spec/mc/MC_Eval.
C2S: (a) LoggingCallbackStepState.next on random histories -> Trace_EpisodeStats;
     (b) real PPO/A2C/REINFORCE and DQN/SAC runs with the real LoggingCallback over a recording backend: the callback's
         per-environment statistics after every rollout are validated inside the collector traces (clauses Stats*),
         where the reward fed to the model is the *environment's* reward computed by the MDP specification;
     (c) the records that reached the backend, per iteration -> Trace_LogRecords;
     (d) average_reward on deterministic table MDPs/policies -> Trace_Eval."""
from __future__ import annotations

import copy
import json
import random

from .. import offpolicy_suite as ofs
from .. import onpolicy_suite as ops
from .. import tables as tb
from .. import tlc, tracecheck
from ..core import Ctx, Machinery, Report, Violation

LEVEL = "model_checking"
SD = 65536


def is_stats(c: str) -> bool:
    return c.startswith("Stats")


# ---------------------------------------------------------------- (a) next() on random histories
def stats_traces(ctx: Ctx, n: int):
    import jax.numpy as jnp
    from lerax.callback import LoggingCallbackStepState
    from ..drive_onpolicy import proj_stats
    traces, cases = [], []
    for _ in range(n):
        an = ctx.rng.choice([1, 2, 3, 4])
        L = ctx.rng.randint(3, 24)
        pd = ctx.rng.choice([0.15, 0.3, 0.6])
        hist, nd = [], 0
        for _ in range(L):
            d = ctx.rng.random() < pd
            nd += d
            if nd > 8:
                break
            hist.append((ctx.rng.choice([-2, -1, 0, 1, 3]), d))
        cases.append({"an": an, "hist": hist})
        traces.append(run_stats_case(an, hist))
        if len(traces) % 100 == 0:
            from ..core import relieve_jit
            relieve_jit()
    return traces, cases


def run_stats_case(an, hist):
    import jax.numpy as jnp
    from lerax.callback import LoggingCallbackStepState
    from ..drive_onpolicy import proj_stats
    st = LoggingCallbackStepState.initial()
    evs = []
    for (r, d) in hist:
        st = st.next(jnp.asarray(float(r)), jnp.asarray(bool(d)), an / 4.0)
        evs.append({"r": int(r), "d": bool(d), "st": proj_stats(st)})
    return {"an": an, "events": evs}


def exhaustive_stats(ctx: Ctx, L: int):
    """spec -> code, exhaustive: every behaviour of MC_EpisodeStats (rewards {-1, 0, 2} x done x alpha in {1..4}/4, length L, one
    environment) is executed on the real LoggingCallbackStepState.next (scanned and vmapped over all histories at once)"""
    import itertools
    import jax
    import jax.numpy as jnp
    import numpy as np
    from lerax.callback import LoggingCallbackStepState
    from ..drive_onpolicy import SD
    steps = list(itertools.product((-1, 0, 2), (False, True)))
    hists = list(itertools.product(steps, repeat=L))
    R = jnp.asarray([[float(r) for r, _ in h] for h in hists], dtype=jnp.float32)
    Dn = jnp.asarray([[d for _, d in h] for h in hists])

    def run(rs, ds, alpha):
        def body(st, x):
            st = st.next(x[0], x[1], alpha)
            return st, st
        return jax.lax.scan(body, LoggingCallbackStepState.initial(), (rs, ds))[1]
    traces, cases = [], []
    for an in (1, 2, 3, 4):
        out = jax.device_get(jax.jit(jax.vmap(lambda rs, ds: run(rs, ds, an / 4.0)))(R, Dn))

        def fxs(x):
            v = np.asarray(x, dtype=np.float64) * SD
            return np.where((np.abs(v - np.round(v)) < 1e-2) & (np.abs(v) < 2e9), np.round(v), 7777777).astype(np.int64)
        ret = np.asarray(out.episode_return, dtype=np.float64)
        ret_i = np.where(np.abs(ret - np.round(ret)) < 1e-4, np.round(ret), 7777777).astype(np.int64)
        step, ln, latch = np.asarray(out.step), np.asarray(out.episode_length), np.asarray(out.episode_done)
        aR, aL = fxs(out.average_return), fxs(out.average_length)
        for i, h in enumerate(hists):
            evs = [{"r": int(r), "d": bool(d), "st": dict(step=int(step[i, t]), ret=int(ret_i[i, t]), len=int(ln[i, t]), latch=bool(latch[i, t]),
                                                          avgR=int(aR[i, t]), avgL=int(aL[i, t]))} for t, (r, d) in enumerate(h)]
            traces.append({"an": an, "events": evs})
            cases.append({"an": an, "hist": [[int(r), bool(d)] for r, d in h]})
    return traces, cases


# ---------------------------------------------------------------- (c) backend records
def record_traces(traces: list, onpolicy: bool) -> list:
    """group collector traces of one run into one log-record trace"""
    runs = {}
    if onpolicy:
        for t in traces:
            m = t["meta"]
            if m["record"] is None:
                continue
            key = (id(t["cfg"]), m["algo"], m["N"])
            runs.setdefault(key, {}).setdefault(m["iter"], {})[m["env"]] = (t["final"]["stats"], m["record"])
    out = []
    for key, its in runs.items():
        N = key[2]
        iters = []
        for it in sorted(its):
            if len(its[it]) != N:
                break
            rec = its[it][0][1]
            iters.append({"stats": [its[it][e][0] for e in range(N)],
                          "rec": {"n": rec["n_records"], "step": rec["step"], "retN": rec["retN"], "lenN": rec["lenN"],
                                  "others": rec.get("others", [])}})
        if iters:
            out.append({"N": N, "iters": iters})
    return out


def offpolicy_record_traces(traces: list) -> list:
    runs = {}
    for t in traces:
        m = t["meta"]
        runs.setdefault((id(t["cfg"]), m["algo"], m["N"]), {})[m["env"]] = [e for e in t["events"] if e["ev"] == "snap"]
    out = []
    for key, envs in runs.items():
        N = key[2]
        if len(envs) != N:
            continue
        L = min(len(envs[e]) for e in range(N))
        iters = []
        for j in range(1, L):           # snapshot 0 is reset(): no record yet
            rec = envs[0][j].get("record")
            if rec is None:
                break
            iters.append({"stats": [envs[e][j]["stats"] for e in range(N)],
                          "rec": {"n": rec["n_records"], "step": rec["step"], "retN": rec["retN"], "lenN": rec["lenN"],
                                  "others": rec.get("others", [])}})
        if iters:
            out.append({"N": N, "iters": iters})
    return out


# ---------------------------------------------------------------- (d) evaluation helper
def eval_cfgs(ctx: Ctx, n: int, rng=None) -> list:
    rng = rng or ctx.rng
    out = []
    for i in range(n):
        ak = "disc" if i % 2 == 0 else "box"
        base = tb.gen_mdp(rng, ak, rng.choice(["disc", "box"]))
        stack = tb.gen_stack(rng, base, rng.choice([1, 2]), force_tl=0.6)
        if not any(w["kind"] == "TimeLimit" for w in stack):
            stack.append(tb.wrec("TimeLimit", n=rng.randint(1, 5)))
        c = tb.with_stack(base, stack)
        c = tb.gen_ac_policy(rng, c, K=1)
        asp, _ = tb.outer_spaces(c)
        if asp["kind"] == "box":
            # the helper does not clip: keep the deterministic policy inside the bounds (in-space actions)
            inb = [a for a in tb.candidate_actions(c, oob=False) if asp["lo"] <= a <= asp["hi"]] or [asp["lo"] if asp["lo"] > -tb.INF else 0]
            c["Raw"] = [[rng.choice(inb)] for _ in range(tb.P_TAB)]
        out.append(c)
    return out


def run_eval_case(cache, cfg, E, cap, deterministic, seed):
    import jax.random as jr
    import equinox as eqx
    from lerax.benchmark import average_reward
    env = cache.get(cfg)
    policy = tb.TableACPolicy(env, cfg)
    f = eqx.filter_jit(lambda env, policy, key: average_reward(env, policy, num_episodes=E, max_steps=cap,
                                                               deterministic=deterministic, key=key))
    mean = float(f(env, policy, jr.key(seed)))
    v = mean * E
    return int(round(v)) if abs(v - round(v)) < 1e-3 else 7777777


def eval_traces(ctx: Ctx, n_cfg: int):
    cache = tb.EnvCache()
    cases, items = [], []
    for cfg in eval_cfgs(ctx, n_cfg):
        for (E, cap) in ((1, 3), (2, None), (4, 6), (3, 1)):
            det = ctx.rng.random() < 0.7
            seed = ctx.rng.randrange(2 ** 31)
            meanE = run_eval_case(cache, cfg, E, cap, det, seed)
            cases.append({"cfg": cfg, "E": E, "cap": cap, "det": det, "seed": seed})
            items.append({"cfg": cfg, "E": E, "cap": cap if cap is not None else 12, "meanE": meanE})
    return items, cases


def run(ctx: Ctx) -> Report:
    rep = Report()
    for cfgname in ("mc/MC_EpisodeStats.cfg", "mc/MC_EpisodeStats_N2.cfg"):
        res = tlc.run("mc/MC_EpisodeStats.tla", cfgname, workdir=ctx.work, workers=16, timeout=1800)
        tlc.require_ok(res, f"MC_EpisodeStats ({cfgname})")
        rep.add_tlc(cfgname, res)
        if res.distinct < 50000:
            raise Machinery("MC_EpisodeStats vacuity guard")
    ecfgs = eval_cfgs(ctx, ctx.pick(20, 100), rng=random.Random(99))
    f = ctx.work / "mc_eval_cfgs.json"
    f.write_text(json.dumps(ecfgs))
    res = tlc.run("mc/MC_Eval.tla", workdir=ctx.work, workers=8, env={"CFG_FILE": str(f)}, timeout=900)
    tlc.require_ok(res, "MC_Eval")
    rep.add_tlc("MC_Eval", res)

    # (a)
    traces, cases = stats_traces(ctx, ctx.pick(150, 1500))
    v = tracecheck.validate(ctx, "trace/Trace_EpisodeStats.tla", traces, "stats", procs=ctx.pick(2, 8))
    rep.states += v.distinct
    rep.transitions += v.generated
    rep.traces += len(traces)
    rep.evaluations += sum(len(t["events"]) for t in traces)
    rep.parts["C2S_stepstate_next"] = {"traces": len(traces), "accepted": len(v.accepted), "rejected": len(v.rejected)}
    for i, (l, clauses) in sorted(v.rejected.items()):
        rep.violations.append(Violation("C19:next:" + "+".join(clauses),
                                        f"LoggingCallbackStepState.next, step {l} of history {cases[i]['hist']} (alpha={cases[i]['an']}/4): "
                                        f"failing clauses {clauses}: {traces[i]['events'][l - 1]}", "stats_next", cases[i]))
    L = ctx.pick(4, 5)
    xt, xc = exhaustive_stats(ctx, L)
    xv = tracecheck.validate(ctx, "trace/Trace_EpisodeStats.tla", xt, "stats_exh", procs=ctx.pick(4, 12))
    rep.states += xv.distinct
    rep.transitions += xv.generated
    rep.traces += len(xt)
    rep.evaluations += len(xt) * L
    rep.parts["S2C_stepstate_next_exhaustive"] = {"histories": len(xt), "length": L, "rewards": [-1, 0, 2], "alphas": [1, 2, 3, 4],
                                                  "accepted": len(xv.accepted), "rejected": len(xv.rejected)}
    for i, (l, clauses) in sorted(xv.rejected.items())[:50]:
        rep.violations.append(Violation("C19:next:" + "+".join(clauses),
                                        f"LoggingCallbackStepState.next, step {l} of history {xc[i]['hist']} (alpha={xc[i]['an']}/4): "
                                        f"failing clauses {clauses}: {xt[i]['events'][l - 1]}", "stats_next", xc[i]))
    bad = copy.deepcopy(traces[next(iter(sorted(v.accepted)))])
    bad["events"][-1]["st"]["len"] += 1
    vb = tracecheck.validate(ctx, "trace/Trace_EpisodeStats.tla", [bad], "stats_selftest")
    if 0 not in vb.rejected:
        raise Machinery("C19 self-test (a) failed")
    rep.samples.append({"kind": "LoggingCallbackStepState.next trace", **{k: traces[0][k] for k in ("an",)}, "events": traces[0]["events"][:4]})

    # (b) + (c)
    otr, ocases, ov = ops.run_c2s(ctx, rep, "C19", ctx.pick(6, 30), ctx.pick(25, 100), only=is_stats)
    ftr, fcases, fv = ofs.run_c2s(ctx, rep, "C19", ctx.pick(6, 30), ctx.pick(20, 80), only=is_stats)
    recs = record_traces([t for i, t in enumerate(otr)], True) + offpolicy_record_traces(ftr)
    rv = tracecheck.validate(ctx, "trace/Trace_LogRecords.tla", recs, "records", procs=ctx.pick(1, 4))
    rep.states += rv.distinct
    rep.transitions += rv.generated
    rep.traces += len(recs)
    rep.parts["C2S_backend_records"] = {"runs": len(recs), "records": sum(len(r["iters"]) for r in recs),
                                        "accepted": len(rv.accepted), "rejected": len(rv.rejected)}
    for i, (l, clauses) in sorted(rv.rejected.items()):
        rep.violations.append(Violation("C19:records:" + "+".join(clauses),
                                        f"log record {l} of a run with {recs[i]['N']} environments: failing clauses {clauses}: "
                                        f"{recs[i]['iters'][l - 1]}", "records", {"trace": recs[i]}))
    if recs:
        bad = copy.deepcopy(recs[0])
        bad["iters"][0]["rec"]["step"] += 1
        if 0 not in tracecheck.validate(ctx, "trace/Trace_LogRecords.tla", [bad], "rec_selftest").rejected:
            raise Machinery("C19 self-test (c) failed")
        if not all(it["rec"]["others"] for r in recs for it in r["iters"]):
            raise Machinery("C19 (c): the callback was driven with a single backend; the fan-out clause would be vacuous")
        bad = copy.deepcopy(recs[0])
        bad["iters"][0]["rec"]["others"][0][0] += 1
        st = tracecheck.validate(ctx, "trace/Trace_LogRecords.tla", [bad], "rec_selftest2").rejected
        if 0 not in st or "EveryBackendGetsEveryRecord" not in st[0][1]:
            raise Machinery("C19 self-test (c, second backend) failed")
        rep.parts["C2S_backend_records"]["backends_per_callback"] = 1 + len(recs[0]["iters"][0]["rec"]["others"])

    # (d)
    items, ecases = eval_traces(ctx, ctx.pick(12, 60))
    ev = tracecheck.validate(ctx, "trace/Trace_Eval.tla", items, "eval", procs=ctx.pick(2, 8))
    rep.states += ev.distinct
    rep.transitions += ev.generated
    rep.traces += len(items)
    rep.evaluations += len(items)
    rep.parts["C2S_average_reward"] = {"cases": len(items), "accepted": len(ev.accepted), "rejected": len(ev.rejected)}
    for i, (l, clauses) in sorted(ev.rejected.items()):
        c = ecases[i]
        rep.violations.append(Violation("C19:average_reward:" + "+".join(clauses),
                                        f"average_reward(num_episodes={c['E']}, max_steps={c['cap']}, deterministic={c['det']}) returned "
                                        f"{items[i]['meanE']}/{c['E']} which no assignment of initial states explains; "
                                        f"stack={[w['kind'] for w in c['cfg']['stack']]}", "eval", c))
    bad = copy.deepcopy(items[0])
    bad["meanE"] += 1000
    if 0 not in tracecheck.validate(ctx, "trace/Trace_Eval.tla", [bad], "eval_selftest").rejected:
        raise Machinery("C19 self-test (d) failed")
    # "independent episodes": one-step lottery episodes whose return names the start state (the table MDPs above are deterministic
    # given the start state, and their start sets are small): the mean decodes into the multiset of start states
    from .. import drive_identity as di
    icases = [dict(E=24, cap=cap, det=det, seed=ctx.rng.randrange(2 ** 31)) for cap in (None, 3) for det in (True, False) for _ in range(ctx.pick(1, 4))]
    its = [di.independent_episodes_case(c["E"], c["cap"], c["det"], c["seed"]) for c in icases]
    iv = tracecheck.validate(ctx, "trace/Trace_Atoms.tla", its, "eval_independent")
    rep.traces += len(its)
    rep.parts["C2S_average_reward_independent_episodes"] = {"cases": [i["meta"] for i in its], "accepted": len(iv.accepted), "rejected": len(iv.rejected)}
    for i, (l, clauses) in sorted(iv.rejected.items()):
        rep.violations.append(Violation("C19:average_reward:" + "+".join(clauses), f"average_reward on one-step lottery episodes {its[i]['meta']}: {clauses}",
                                        "eval_independent", icases[i]))
    rep.assumptions += ["statistics are exact in units of 1/4^8: traces are cut after 8 episode ends per environment",
                        "the reward fed to the statistics model is the environment's reward as computed by MDP.tla, not the buffer's"]
    return rep


def replay(ctx: Ctx, driver: str, case: dict) -> Report:
    if driver == "eval_independent":
        from .. import drive_identity as di
        rep = Report()
        it = di.independent_episodes_case(case["E"], case["cap"], case["det"], case["seed"])
        v = tracecheck.validate(ctx, "trace/Trace_Atoms.tla", [it], "replay")
        rep.traces = 1
        for i, (l, clauses) in v.rejected.items():
            rep.violations.append(Violation("C19:average_reward:" + "+".join(clauses), str(it["meta"]), driver, case))
        return rep
    rep = Report()
    if driver == "onpolicy":
        return ops.replay(ctx, "C19", case, only=is_stats)
    if driver == "offpolicy":
        return ofs.replay(ctx, "C19", case, only=is_stats)
    if driver == "stats_next":
        tr = run_stats_case(case["an"], [tuple(x) for x in case["hist"]])
        v = tracecheck.validate(ctx, "trace/Trace_EpisodeStats.tla", [tr], "replay")
        for i, (l, cl) in v.rejected.items():
            rep.violations.append(Violation("C19:next:" + "+".join(cl), f"step {l}", driver, case))
    elif driver == "eval":
        meanE = run_eval_case(tb.EnvCache(), case["cfg"], case["E"], case["cap"], case["det"], case["seed"])
        it = {"cfg": case["cfg"], "E": case["E"], "cap": case["cap"] if case["cap"] is not None else 12, "meanE": meanE}
        v = tracecheck.validate(ctx, "trace/Trace_Eval.tla", [it], "replay")
        for i, (l, cl) in v.rejected.items():
            rep.violations.append(Violation("C19:average_reward:" + "+".join(cl), f"meanE={meanE}", driver, case))
    elif driver == "records":
        v = tracecheck.validate(ctx, "trace/Trace_LogRecords.tla", [case["trace"]], "replay")
        for i, (l, cl) in v.rejected.items():
            rep.violations.append(Violation("C19:records:" + "+".join(cl), f"record {l} (recorded trace re-validated)", driver, case))
    rep.traces = 1
    return rep
