"""Unitree G1 episodes (thorough tier only: one initial() / step() compiles in about 100 s per task).

For C20: per episode start the randomisation *frame* (the set of model leaves that differ from the nominal model must be a
subset of {pair_friction[0:2,0:2], dof_frictionloss[6:], dof_armature[6:], body_mass}), the ranges (friction, friction-loss
scale, armature scale, mass scale + torso offset, command, gait frequency; zero command for the standing tasks), kinematic
consistency (mjx.forward of the state's own qpos reproduces xpos), and along env.step histories the gait-phase coherence
(in range, half a cycle apart, advance by 2 pi f dt with the state's own frequency) - all as atoms of a Trace_Gait trace
(the frequency of a real episode is continuous, so the tick grid does not apply there).
For C02: the typing / membership atoms of the same rollouts."""
from __future__ import annotations

import math

import numpy as np

from .. import tracecheck
from ..core import Ctx, Report, Violation

TASKS = ("G1Locomotion", "G1Standing", "G1Standup")
_CACHE: dict = {}


def task(name):
    if name not in _CACHE:
        import equinox as eqx
        from lerax.env.unitree import g1
        env = getattr(g1, name)(push_enable=False, noise_level=0.0)
        init = eqx.filter_jit(lambda env, k: env.initial(key=k))
        step = eqx.filter_jit(lambda env, s, a, k: env.step(s, a, key=k))
        _CACHE[name] = (env, init, step)
    return _CACHE[name]


def episode_atoms(name: str, n_keys: int, n_steps: int, seed: int) -> dict:
    import jax
    import jax.numpy as jnp
    import jax.random as jr
    from mujoco import mjx
    env, init, step = task(name)
    base = env.base_model
    A = {k: True for k in ("OnlyTheDocumentedModelParametersAreRandomised", "ContactFrictionWithinRange", "FrictionLossScaleWithinRange",
                           "ArmatureScaleWithinRange", "BodyMassScaleAndTorsoOffsetWithinRange", "CommandWithinRangeOrZeroForStandingTasks",
                           "GaitFrequencyWithinRange", "DerivedKinematicsConsistentWithJointConfiguration", "GaitPhasesStartAtZeroAndPi",
                           "GaitPhasesStayWithinMinusPiPi", "GaitPhasesHalfACycleApart", "GaitPhaseAdvancesByTwoPiFrequencyDt",
                           "SigObservationDtypeAndShape", "SigObservationInDeclaredSpace", "SigRewardIsFiniteFloatScalar",
                           "SigTerminalIsBooleanScalar", "SigTruncatedIsBooleanScalar")}
    e = 1e-5
    fwd = jax.jit(lambda m, d: mjx.forward(m, d))
    for i in range(n_keys):
        st = init(env, jr.key(seed + i))
        m = st.model
        changed = set()
        for (path, a), (_, b) in zip(jax.tree_util.tree_flatten_with_path(m)[0], jax.tree_util.tree_flatten_with_path(base)[0]):
            if hasattr(a, "shape") and not np.array_equal(np.asarray(a), np.asarray(b)):
                changed.add(jax.tree_util.keystr(path).strip(".").split(".")[-1].strip("[]'\""))
        A["OnlyTheDocumentedModelParametersAreRandomised"] &= changed <= {"pair_friction", "dof_frictionloss", "dof_armature", "body_mass"}
        pf, pf0 = np.asarray(m.pair_friction), np.asarray(base.pair_friction)
        lo, hi = env.friction_range
        A["ContactFrictionWithinRange"] &= bool(np.all(pf[0:2, 0:2] >= lo - e) and np.all(pf[0:2, 0:2] <= hi + e))
        rest = pf.copy()
        rest[0:2, 0:2] = pf0[0:2, 0:2]
        A["OnlyTheDocumentedModelParametersAreRandomised"] &= bool(np.array_equal(rest, pf0))
        fl, fl0 = np.asarray(m.dof_frictionloss), np.asarray(env.nominal_friction_loss)
        lo, hi = env.friction_loss_scale_range
        A["FrictionLossScaleWithinRange"] &= bool(np.all(fl[6:] >= fl0 * lo - e) and np.all(fl[6:] <= fl0 * hi + e))
        A["OnlyTheDocumentedModelParametersAreRandomised"] &= bool(np.array_equal(fl[:6], np.asarray(base.dof_frictionloss)[:6]))
        ar, ar0 = np.asarray(m.dof_armature), np.asarray(env.nominal_armature)
        lo, hi = env.armature_scale_range
        A["ArmatureScaleWithinRange"] &= bool(np.all(ar[6:] >= ar0 * lo - e) and np.all(ar[6:] <= ar0 * hi + e))
        A["OnlyTheDocumentedModelParametersAreRandomised"] &= bool(np.array_equal(ar[:6], np.asarray(base.dof_armature)[:6]))
        bm, bm0 = np.asarray(m.body_mass), np.asarray(env.nominal_body_mass)
        lo, hi = env.mass_scale_range
        tlo, thi = env.torso_offset_range
        off = np.zeros_like(bm0)
        okm = True
        for b in range(len(bm0)):
            l_, h_ = bm0[b] * lo, bm0[b] * hi
            if b == env.torso_body_id:
                l_, h_ = l_ + tlo, h_ + thi
            okm &= bool(l_ - 1e-4 <= bm[b] <= h_ + 1e-4)
        A["BodyMassScaleAndTorsoOffsetWithinRange"] &= okm
        cmd = np.asarray(st.command)
        if name == "G1Locomotion":
            rng = [np.asarray(env.lin_vel_x_range), np.asarray(env.lin_vel_y_range), np.asarray(env.ang_vel_yaw_range)]
            A["CommandWithinRangeOrZeroForStandingTasks"] &= bool(all(r[0] - e <= c <= r[1] + e for c, r in zip(cmd, rng)))
            gf = np.asarray(env.gait_frequency_range)
            A["GaitFrequencyWithinRange"] &= bool(gf[0] - e <= float(st.gait_frequency) <= gf[1] + e)
        else:
            A["CommandWithinRangeOrZeroForStandingTasks"] &= bool(np.all(cmd == 0.0))
        d = st.sim_state
        ref = fwd(m, d)
        A["DerivedKinematicsConsistentWithJointConfiguration"] &= bool(
            np.allclose(np.asarray(d.xpos), np.asarray(ref.xpos), rtol=1e-4, atol=1e-4)
            and np.allclose(np.asarray(d.site_xpos), np.asarray(ref.site_xpos), rtol=1e-4, atol=1e-4))
        ph = np.asarray(st.gait_phase, dtype=np.float64)
        A["GaitPhasesStartAtZeroAndPi"] &= bool(abs(ph[0]) < 1e-6 and abs(abs(ph[1]) - math.pi) < 1e-5)
        dt = float(env.dt) if hasattr(env, "dt") else 0.02
        # stepped histories from the first initial state: as sampled, and (locomotion) with the command set to zero - the value
        # `zero_command_probability` of the resets hand out; the gait clock runs at the state's frequency whatever the command
        import equinox as eqx
        starts = [st] if i == 0 else []
        if i == 0 and name == "G1Locomotion":
            starts.append(eqx.tree_at(lambda z: z.command, st, jnp.zeros_like(st.command)))
        for j in [j for _ in list(starts) for j in range(n_steps)]:        # n_steps steps from each start, one after the other
            if j == 0:
                s_cur = starts.pop(0)
            s = s_cur
            a = env.action_space.sample(key=jr.key(1000 + j))
            prev = np.asarray(s.gait_phase, dtype=np.float64)
            f = float(s.gait_frequency)
            s2, obs, rew, term, trunc, _ = step(env, s, a, jr.key(j))
            o = np.asarray(obs)
            A["SigObservationDtypeAndShape"] &= bool(o.shape == np.asarray(env.observation_space.low).shape and np.issubdtype(o.dtype, np.floating))
            A["SigObservationInDeclaredSpace"] &= bool(not np.any(np.isnan(o)))
            r = np.asarray(rew)
            A["SigRewardIsFiniteFloatScalar"] &= bool(r.shape == () and np.isfinite(r))
            A["SigTerminalIsBooleanScalar"] &= bool(np.asarray(term).dtype == np.bool_ and np.asarray(term).shape == ())
            A["SigTruncatedIsBooleanScalar"] &= bool(np.asarray(trunc).dtype == np.bool_ and np.asarray(trunc).shape == ())
            if bool(term) or bool(trunc):
                s_cur = s2
                continue
            cur = np.asarray(s2.gait_phase, dtype=np.float64)
            A["GaitPhasesStayWithinMinusPiPi"] &= bool(np.all(np.abs(cur) <= math.pi + 1e-5))
            wrap = lambda x: (x + math.pi) % (2 * math.pi) - math.pi
            A["GaitPhasesHalfACycleApart"] &= bool(abs(abs(wrap(cur[1] - cur[0])) - math.pi) < 1e-3)
            inc = 2 * math.pi * f * dt
            A["GaitPhaseAdvancesByTwoPiFrequencyDt"] &= bool(all(abs(wrap(cur[k] - prev[k] - inc)) < 1e-3 for k in range(2)))
            s_cur = s2
    return {k: bool(v) for k, v in A.items()}


def gait_traces(ctx: Ctx):
    traces, cases = [], []
    for name in TASKS:
        atoms = episode_atoms(name, ctx.pick(2, 8), ctx.pick(4, 24), ctx.seed * 100)
        atoms = {k: v for k, v in atoms.items() if not k.startswith("Sig")}
        traces.append({"K": 8, "m": 1, "init": {"l": 0, "r": 4}, "events": [], "atoms": atoms})
        cases.append({"kind": name, "keys": ctx.pick(2, 8), "steps": ctx.pick(4, 24), "seed": ctx.seed * 100})
    return traces, cases


def run_c02(ctx: Ctx) -> Report:
    rep = Report()
    traces = []
    for name in TASKS:
        atoms = episode_atoms(name, 1, ctx.pick(3, 12), ctx.seed * 100 + 7)
        traces.append({"K": 8, "m": 1, "init": {"l": 0, "r": 4}, "events": [], "atoms": {k: v for k, v in atoms.items() if k.startswith("Sig")}})
    v = tracecheck.validate(ctx, "trace/Trace_Gait.tla", traces, "g1_c02")
    rep.traces += len(traces)
    rep.parts["C2S_g1_rollouts"] = {"tasks": list(TASKS), "accepted": len(v.accepted), "rejected": len(v.rejected)}
    for i, (l, clauses) in v.rejected.items():
        rep.violations.append(Violation(f"C02:{TASKS[i]}:" + "+".join(clauses), f"{TASKS[i]} rollout: {clauses}", "g1", {"kind": TASKS[i]}))
    return rep


def replay(ctx: Ctx, case: dict) -> Report:
    rep = Report()
    atoms = episode_atoms(case["kind"], case.get("keys", 2), case.get("steps", 4), case.get("seed", 0))
    tr = {"K": 8, "m": 1, "init": {"l": 0, "r": 4}, "events": [], "atoms": atoms}
    v = tracecheck.validate(ctx, "trace/Trace_Gait.tla", [tr], "replay")
    for i, (l, clauses) in v.rejected.items():
        rep.violations.append(Violation(f"C20:{case['kind']}:" + "+".join(clauses), f"{case['kind']}: {clauses}", "gait", case))
    rep.traces = 1
    return rep
