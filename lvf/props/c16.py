"""C16 - masked actions are never chosen; key-less policies act greedily.
C15 shares the discrete-law cases (see c15.py).

MC : spec/mc/MC_DiscreteLaws (DiscreteLaws.tla): all weight vectors over 1..3 (n <= 4) x all non-empty masks.
S2C/C2S: real Categorical / Bernoulli / MultiCategorical(...).mask(m) and production MLP actor-critic / Q policies under
     every non-empty mask, judged case by case by TLC (Trace_Laws)."""
from __future__ import annotations

import copy
import itertools

from .. import core, tlc, tracecheck
from ..core import Ctx, Machinery, Report, Violation

LEVEL = "model_checking"
SPEC = "trace/Trace_Laws.tla"


def run_mc(ctx: Ctx, rep: Report):
    res = tlc.run("mc/MC_DiscreteLaws.tla", workdir=ctx.work, workers=8, timeout=900)
    tlc.require_ok(res, "MC_DiscreteLaws")
    rep.add_tlc("MC_DiscreteLaws", res)
    if res.distinct < 1000:
        raise Machinery("MC_DiscreteLaws vacuity guard")


def law_cases(ctx: Ctx, masked: bool):
    from .. import drive_laws as dl
    rng = ctx.rng
    cases = []
    keys = [rng.randrange(10 ** 6) for _ in range(ctx.pick(8, 24))]
    for n in (2, 3, 4):
        ws = list(itertools.product([1, 2, 3], repeat=n))
        rng.shuffle(ws)
        for w in ws[:ctx.pick(4, 20)]:
            masks = list(dl.all_masks(n)) if masked else [[True] * n]
            for m in masks:
                for via in ("probs", "logits") + (("logits_forbidden_dominant",) if masked and not all(m) and len(cases) % 3 == 0 else ()):
                    cases.append(("cat", (w, m, via, keys)))
    for n in (2, 3):
        # (quarters) interior probabilities, and components that are certain (probability 0 or 1) before masking
        for a in list(itertools.product([1, 2, 3], repeat=n))[:ctx.pick(4, 27)] + ([(4, 0), (0, 4)] if n == 2 else [(4, 0, 3), (4, 4, 1), (0, 0, 2)]):
            masks = list(dl.all_masks(n, nonempty=False)) if masked else [[True] * n]
            for m in masks:
                cases.append(("bern", (a, m, keys)))
    for dims in ((2, 3), (2, 2), (3, 2, 2)):
        tot = sum(dims)
        for _ in range(ctx.pick(2, 8)):
            w = [rng.choice([1, 2, 3]) for _ in range(tot)]
            if masked:
                comp_masks = [list(dl.all_masks(d)) for d in dims]
                allm = [sum(parts, []) for parts in itertools.product(*comp_masks)]
                rng.shuffle(allm)
                ms = allm[:ctx.pick(6, 40)]
            else:
                ms = [[True] * tot]
            for m in ms:
                cases.append(("multi", (dims, w, m, keys)))
                if masked and not all(m) and len(cases) % 2 == 0:       # forbidden classes 120 nats above every allowed one
                    cases.append(("multi", (dims, w, m, keys, 120.0)))
    return cases


def record_law(c):
    from .. import drive_laws as dl
    kind, args = c
    return {"cat": dl.cat_case, "bern": dl.bern_case, "multi": dl.multi_case, "cont": dl.cont_case, "batched": dl.batched_case}[kind](*args)


def judge(ctx: Ctx, rep: Report, pid: str, evs: list, cases: list, tag: str):
    items = [{"ev": e} for e in evs]
    v = tracecheck.validate(ctx, SPEC, items, tag, procs=ctx.pick(2, 8))
    rep.states += v.distinct
    rep.transitions += v.generated
    rep.traces += len(items)
    rep.evaluations += len(items)
    kinds = {}
    for e in evs:
        kinds[e["ev"]] = kinds.get(e["ev"], 0) + 1
    rep.parts[f"S2C_{tag}"] = {"cases": kinds, "accepted": len(v.accepted), "rejected": len(v.rejected)}
    for i, (l, clauses) in sorted(v.rejected.items()):
        e = evs[i]
        short = {k: x for k, x in e.items() if k not in ("samples", "joint")}
        rep.violations.append(Violation(f"{pid}:{e['ev']}:{e.get('kind', '')}:" + "+".join(clauses),
                                        f"{e['ev']} case violates {clauses}: {short}", "law_case", cases[i]))
    return v


def run(ctx: Ctx) -> Report:
    from .. import drive_laws as dl
    rep = Report()
    run_mc(ctx, rep)
    lc = law_cases(ctx, masked=True)
    evs = []
    for c in lc:
        evs.append(record_law(c))
        if len(evs) % 50 == 0:
            core.relieve_jit()
    cases = [{"law": [c[0], list(c[1])]} for c in lc]
    v = judge(ctx, rep, "C16", evs, cases, "masked_laws")
    pcs, pcases = [], []
    for kind in ("disc", "multidisc", "multibin", "q"):
        for s in range(ctx.pick(2, 10)):
            seed = ctx.rng.randrange(10 ** 6)
            n = ctx.rng.choice([2, 3, 4])
            new = dl.policy_cases(kind, seed, ctx.pick(4, 12), n)
            core.relieve_jit()
            pcs += new
            pcases += [{"policy": [kind, seed, ctx.pick(4, 12), n], "index": i} for i in range(len(new))]
    pv = judge(ctx, rep, "C16", pcs, pcases, "policies")
    # SAC policy (continuous actions): key-less = mode of the sampled law, also for asymmetric bounds
    sac_specs = [(-2.0, 2.0), (0.0, 1.0), (2.0, 5.0), ([-1.0, 0.0], [1.0, 4.0]), ([-3.0, -2.0, 1.0], [-1.0, 2.0, 1.5])][:ctx.pick(4, 5)]
    sevs = [dl.sac_policy_case(lo, hi, ctx.rng.randrange(10 ** 6)) for lo, hi in sac_specs]
    judge(ctx, rep, "C16", sevs, [{"sac": [lo, hi]} for lo, hi in sac_specs], "sac_policy")
    # binding self-test: a masked action chosen; a non-greedy key-less action
    good = [i for i in sorted(pv.accepted) if pcs[i]["mode"] == "greedy" and len(pcs[i]["comps"][0]["ranks"]) >= 2]
    m1 = copy.deepcopy(pcs[good[0]])
    c = m1["comps"][0]
    other = [a for a in range(len(c["ranks"])) if a != c["a"]]
    c["a"] = other[0]
    c["m"] = [True] * len(c["m"])
    if len(set(c["ranks"])) == 1:
        raise Machinery("C16 self-test: degenerate ranks")
    c["ranks"] = [2 if i == pcs[good[0]]["comps"][0]["a"] else 1 for i in range(len(c["ranks"]))]
    m2 = copy.deepcopy(evs[next(i for i in sorted(v.accepted) if evs[i]["ev"] == "cat" and not all(evs[i]["m"]))])
    m2["samples"][0] = m2["m"].index(False)
    vb = tracecheck.validate(ctx, SPEC, [{"ev": m1}, {"ev": m2}], "laws_selftest")
    if len(vb.rejected) != 2:
        raise Machinery(f"C16 binding self-test failed: {vb.accepted}")
    rep.parts["binding_self_test"] = {"corrupted_cases_rejected": 2}
    rep.samples.append({"kind": "masked categorical case", **{k: evs[0][k] for k in ("w", "m", "probs", "mode", "atoms")}})
    rep.samples.append({"kind": "policy case", **{k: pcs[0][k] for k in ("kind", "mode", "comps")}})
    rep.undecided += ["a Q policy departs from the greedy action with probability at most epsilon: decided statistically (2400 keys, 6 sigma) at epsilon = 0.3 on the sampled masks; the bound itself leaves room (a uniform exploratory draw departs with epsilon*(1-1/k))"]
    rep.assumptions += ["rank vectors of unmasked preferences are obtained through the public API only (evaluate_action / q_values)"]
    return rep


def replay(ctx: Ctx, driver: str, case: dict) -> Report:
    from .. import drive_laws as dl
    rep = Report()
    if "law" in case:
        kind, args = case["law"]
        args = [tuple(a) if isinstance(a, list) and kind == "multi" and i == 0 else a for i, a in enumerate(args)]
        evs = [record_law((kind, tuple(args)))]
    elif "sac" in case:
        evs = [dl.sac_policy_case(case["sac"][0], case["sac"][1], case.get("seed", 1))]
    else:
        kind, seed, nk, n = case["policy"]
        evs = [dl.policy_cases(kind, seed, nk, n)[case["index"]]]
    judge(ctx, rep, ctx.pid, evs, [case], "replay")
    return rep
