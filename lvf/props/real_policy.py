"""C04 with the production policy: real PPO collection with MLPActorCriticPolicy on CartPole (discrete actions) and Pendulum
(Box actions: raw samples frequently leave the bounds).  For every row of the real rollout the stored sample is re-evaluated
under the unchanged policy (evaluate_action(row.state, row.obs, row.action)): log-prob and value must reproduce the stored
ones (first PPO ratio = 1), and the stored done flags / rewards must be finite and well-typed.  Atoms (1e-5)."""
from __future__ import annotations

import numpy as np

from .. import tracecheck
from ..core import Ctx, Report, Violation


def record(env_name: str, n_envs: int, steps: int, seed: int) -> dict:
    import equinox as eqx
    import jax
    import jax.numpy as jnp
    import jax.random as jr
    from lerax.env.classic_control import CartPole, Pendulum
    from lerax.policy import MLPActorCriticPolicy
    from lerax.wrapper import TimeLimit
    from ..drive_onpolicy import Recorder, make_algo
    if env_name == "MaskedTable":
        # a finite MDP with state-dependent action masks (lvf/tables.py) under the production policy
        import random
        from .. import tables as tb
        rng = random.Random(seed)
        cfg = tb.with_stack(tb.gen_mdp(rng, "disc", "box", mask=True, nS=4, nA=4), [tb.wrec("TimeLimit", n=5)])
        env = tb.build_env(cfg)
    else:
        env = TimeLimit({"CartPole": CartPole, "Pendulum": Pendulum}[env_name](), 7)
    k0, k1, k2 = jr.split(jr.key(seed), 3)
    policy = MLPActorCriticPolicy(env=env, key=k0, log_std_init=1.0) if env_name == "Pendulum" else MLPActorCriticPolicy(env=env, key=k0)
    algo = make_algo("PPO", n_envs, steps)
    cb = Recorder()
    state = eqx.filter_jit(lambda a, e, p, k, c: a.reset(e, p, key=k, callback=c))(algo, env, policy, k1, cb)
    state = eqx.filter_jit(lambda a, s, k, c: a.iteration(s, key=k, callback=c))(algo, state, k2, cb)
    buf = state.callback_state.log["buffer"]
    flat = buf.flatten_axes()
    _, v, lp, _ = jax.vmap(policy.evaluate_action)(flat.states, flat.observations, flat.actions, action_mask=flat.action_masks)
    ratio = np.exp(np.asarray(lp) - np.asarray(flat.log_probs))
    from lerax.space import Box
    act = np.asarray(flat.actions)
    oob = 0
    if isinstance(env.action_space, Box):
        oob = int(np.sum((act < np.asarray(env.action_space.low) - 1e-9) | (act > np.asarray(env.action_space.high) + 1e-9)))
    atoms = {"FirstPpoRatioIsOne": bool(np.all(np.abs(ratio - 1.0) <= 1e-4)),
             "StoredValueIsPolicyValueOfStoredObservation": bool(np.allclose(np.asarray(v), np.asarray(flat.values), rtol=1e-5, atol=1e-5)),
             "AdvantagesAndReturnsAreFinite": bool(np.all(np.isfinite(np.asarray(flat.advantages))) and np.all(np.isfinite(np.asarray(flat.returns))))}
    # the ratio PPO itself computes on this buffer with the unchanged policy (its own re-evaluation of the stored samples - with the
    # recorded policy states and the recorded masks - not the harness's)
    from lerax.algorithm import PPO
    _, st = PPO.ppo_loss(policy, flat, False, 0.2, False, 0.5, 0.0)
    atoms["FirstRatioInsidePpoLossIsOne"] = bool(abs(float(st.approx_kl)) <= 1e-5 and
                                                 abs(float(st.policy_loss) + float(np.mean(np.asarray(flat.advantages)))) <= 1e-4 * (1 + abs(float(st.policy_loss))))
    masked_rows = 0
    if flat.action_masks is not None:
        m = np.asarray(flat.action_masks).astype(bool)
        a = np.asarray(flat.actions).astype(int)
        atoms["StoredActionIsAllowedByTheStoredMask"] = bool(np.all(m[np.arange(len(a)), a]))
        masked_rows = int(np.sum(~np.all(m, axis=1)))
    return {"atoms": atoms, "meta": {"env": env_name, "N": n_envs, "rows": int(ratio.shape[0]), "max_abs_ratio_minus_1": float(np.max(np.abs(ratio - 1.0))),
                                     "stored_actions_outside_bounds": oob, "dones": int(np.sum(np.asarray(flat.dones))), "rows_with_a_masked_action": masked_rows}}


def run_c04(ctx: Ctx) -> Report:
    rep = Report()
    cases = [dict(env=e, N=n, steps=s, seed=ctx.rng.randrange(2 ** 31)) for (e, n, s) in
             (("CartPole", 1, 32), ("Pendulum", 1, 48), ("Pendulum", 2, 32), ("MaskedTable", 2, 24)) + ((("CartPole", 3, 32), ("Pendulum", 3, 64)) if ctx.thorough else ())]
    traces = [record(c["env"], c["N"], c["steps"], c["seed"]) for c in cases]
    v = tracecheck.validate(ctx, "trace/Trace_Atoms.tla", traces, "realpol")
    rep.traces += len(traces)
    rep.evaluations += sum(t["meta"]["rows"] for t in traces)
    rep.states += v.distinct
    rep.transitions += v.generated
    rep.parts["C2S_production_policy_reevaluation"] = {"rollouts": [t["meta"] for t in traces], "accepted": len(v.accepted), "rejected": len(v.rejected)}
    for i, (l, clauses) in sorted(v.rejected.items()):
        rep.violations.append(Violation(f"C04:production_policy:{cases[i]['env']}:" + "+".join(clauses),
                                        f"real PPO rollout with MLPActorCriticPolicy on {cases[i]['env']}: {clauses}; {traces[i]['meta']}",
                                        "real_policy", cases[i]))
    # a policy whose law AND value depend on its carried state, under action masks (lvf/drive_identity.py): every stored reward is
    # recomputed from its own row (env reward + gamma * V(successor; the state the policy carries there) on truncation only)
    from .. import drive_identity as di
    icases = [dict(algo=a, N=n, T=8, masked=m, stateful=True, seed=ctx.rng.randrange(10 ** 6))
              for a in ("PPO", "A2C", "REINFORCE") for (n, m) in ((2, True), (1, False)) for _ in range(ctx.pick(2, 6))]
    items = [di.identity_case(c["algo"], c["N"], c["T"], c["masked"], c["stateful"], c["seed"]) for c in icases]
    iv = tracecheck.validate(ctx, "trace/Trace_Atoms.tla", [{"atoms": it["atoms"]} for it in items], "stateful_policy")
    rep.traces += len(items)
    boots = sum(it["truncation_only_rows"] for it in items)
    rep.parts["C2S_stateful_masked_policy_rollouts"] = {"rollouts": len(items), "rows_ended_by_truncation_only": boots,
                                                        "accepted": len(iv.accepted), "rejected": len(iv.rejected)}
    if boots < 5:
        from ..core import Machinery
        raise Machinery("C04: the stateful-policy rollouts contain fewer than 5 rows ended by truncation only (vacuity guard)")
    for i, (l, clauses) in sorted(iv.rejected.items()):
        rep.violations.append(Violation(f"C04:stateful_policy:{icases[i]['algo']}:" + "+".join(clauses),
                                        f"real {icases[i]['algo']} rollout with a stateful, masked policy ({items[i]['kind']}): {clauses}",
                                        "stateful_policy", icases[i]))
    return rep


def replay(ctx: Ctx, driver: str, case: dict) -> Report:
    rep = Report()
    if driver == "stateful_policy":
        from .. import drive_identity as di
        it = di.identity_case(case["algo"], case["N"], case["T"], case["masked"], case["stateful"], case["seed"])
        v = tracecheck.validate(ctx, "trace/Trace_Atoms.tla", [{"atoms": it["atoms"]}], "replay")
        for i, (l, clauses) in v.rejected.items():
            rep.violations.append(Violation(f"C04:stateful_policy:{case['algo']}:" + "+".join(clauses), it["kind"], driver, case))
        rep.traces = 1
        return rep
    tr = record(case["env"], case["N"], case["steps"], case["seed"])
    v = tracecheck.validate(ctx, "trace/Trace_Atoms.tla", [tr], "replay")
    for i, (l, clauses) in v.rejected.items():
        rep.violations.append(Violation(f"C04:production_policy:{case['env']}:" + "+".join(clauses), str(tr["meta"]), driver, case))
    rep.traces = 1
    return rep
