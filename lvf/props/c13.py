"""C13 - wrappers and adapters change only what they declare; TimeLimit is exact.

MC : spec/mc/MC_Wrappers (Wrappers.tla): for every stack, one step of the wrapped machine = one step of the machine
     without its outermost wrapper, related by the declared maps; TimeLimit exactness; exact rescaling of bounds.
C2S: (a) every documented wrapper kind is constructed; functional components of real wrapper stacks probed in arbitrary
         wrapped states -> Trace_Components; (b) the Gym-style API over stacks -> Trace_EnvAPI (shared with C01), with
         TimeLimit(N) along enumerated episode histories; (c) Gymnasium / Gymnax adapters -> Trace_EnvAPI."""
from __future__ import annotations

import copy
import json
import random

from .. import tables as tb
from .. import tlc, tracecheck
from ..core import Ctx, Machinery, Report, Violation
from . import c01

LEVEL = "model_checking"


def mc(ctx: Ctx, rep: Report):
    rng = random.Random(1313)
    cfgs = []
    for kind in tb.ALL_KINDS:           # every documented kind appears as outermost wrapper at least twice
        for _ in range(ctx.pick(3, 12)):
            for _try in range(50):
                m = tb.gen_mdp(rng, rng.choice(["disc", "box"]), rng.choice(["disc", "box"]), nS=rng.randint(2, 4))
                inner = tb.gen_stack(rng, m, rng.randint(0, 2), force_tl=0.25)
                c = tb.with_stack(m, inner)
                a, o = tb.outer_spaces(c)
                if tb.compatible(kind, a, o):
                    c["stack"].append(tb.gen_wrapper(rng, kind, a, o, m["nA"]))
                    c["acts"] = tb.candidate_actions(c)
                    cfgs.append(c)
                    break
    f = ctx.work / "mc_wrappers_cfgs.json"
    f.write_text(json.dumps(cfgs))
    res = tlc.run("mc/MC_Wrappers.tla", workdir=ctx.work, workers=16, env={"CFG_FILE": str(f)}, coverage=True, timeout=2400)
    tlc.require_ok(res, "MC_Wrappers")
    rep.add_tlc("MC_Wrappers", res, configurations=len(cfgs),
                outermost_kinds=sorted({c["stack"][-1]["kind"] for c in cfgs}))
    if res.distinct < 8 * len(cfgs) or res.coverage.get("DoStep", (0, 0))[1] == 0:
        raise Machinery(f"MC_Wrappers vacuity guard: {res.distinct} states")
    if {c["stack"][-1]["kind"] for c in cfgs} != set(tb.ALL_KINDS):
        raise Machinery("MC_Wrappers: not every wrapper kind is covered")


def construct_all(ctx: Ctx, rep: Report):
    """every documented wrapper can be constructed (on a compatible environment)"""
    rng = random.Random(7)
    n = 0
    for kind in tb.ALL_KINDS:
        for (ak, ok) in (("disc", "disc"), ("box", "box"), ("disc", "box"), ("box", "disc")):
            m = tb.gen_mdp(rng, ak, ok)
            a, o = tb.base_spaces(m)
            if not tb.compatible(kind, a, o):
                continue
            w = tb.gen_wrapper(rng, kind, a, o, m["nA"])
            n += 1
            try:
                env = tb.build_env(tb.with_stack(m, [w]))
                env.initial(key=__import__("jax").random.key(0))
            except Exception as ex:  # noqa: BLE001 - a construction failure is the finding
                rep.violations.append(Violation(f"C13:construct:{kind}",
                                                f"documented wrapper {kind} cannot be constructed over a {ak}-action/{ok}-observation "
                                                f"environment: {type(ex).__name__}: {str(ex)[:200]}", "construct",
                                                {"kind": kind, "ak": ak, "ok": ok}))
                break
    rep.parts["construct_all_wrappers"] = {"constructions": n, "kinds": len(tb.ALL_KINDS)}
    rep.evaluations += n


def gen_component_cases(ctx: Ctx, n_templates: int, per_template: int):
    rng = ctx.rng
    cases = []
    combos = [("disc", "disc"), ("box", "box"), ("disc", "box"), ("box", "disc")]
    kinds = list(tb.ALL_KINDS)
    templates = []
    for i in range(n_templates):
        ak, ok = combos[i % 4]
        base = tb.gen_mdp(rng, ak, ok, mask=(rng.random() < 0.4))
        must = kinds[i % len(kinds)]
        stack = None
        for _ in range(40):
            st = tb.gen_stack(rng, base, rng.choice([1, 2, 3, 3]), force_tl=0.25)
            if any(w["kind"] == must for w in st):
                stack = st
                break
        stack = stack or tb.gen_stack(rng, base, 2, force_tl=0.25)
        templates.append((tb.with_stack(base, stack), per_template))
    # every ORDER of an action wrapper and an observation wrapper that changes observations (delegation through the stack: each
    # wrapper must ask the wrapper below it, not the innermost environment), whatever the random stacks above contain
    for okind in ("RescaleObservation", "TransformObservation", "FlattenObservation", "ClipObservation"):
        for akind in ("ClipAction", "RescaleAction", "TransformAction"):
            for order in (0, 1):
                for (ak, ok) in combos:
                    base = tb.gen_mdp(rng, ak, ok, mask=False)
                    a, o = tb.base_spaces(base)
                    st = []
                    for k in ((okind, akind) if order == 0 else (akind, okind)):
                        if not tb.compatible(k, a, o):
                            st = None
                            break
                        w = tb.gen_wrapper(rng, k, a, o, base["nA"])
                        st.append(w)
                        a, o = tb.spaces_after(w, a, o)
                    if st:
                        templates.append((tb.with_stack(base, st), max(2, per_template // 3)))
                        break
    for t, per in templates:
        for j in range(per):
            cfg = t if j == 0 else tb.vary(rng, t)
            cand = tb.candidate_actions(cfg)
            probes = []
            for _ in range(10):
                cnt = [rng.randint(0, w["n"] + 1) if w["kind"] == "TimeLimit" else 0 for w in cfg["stack"]]
                probes.append((rng.randint(1, cfg["nS"]), cnt, rng.choice(cand)))
            cases.append({"cfg": cfg, "probes": probes, "seed": rng.randrange(2 ** 31)})
    return cases


def comp_violations(v, traces, cases):
    out = []
    for i, (l, clauses) in sorted(v.rejected.items()):
        tr = traces[i]
        ev = tr["events"][l - 1] if l >= 1 else {"spaces": tr["spaces"], "unwrapped_ok": tr["unwrapped_ok"]}
        stack = [w["kind"] for w in tr["cfg"]["stack"]]
        out.append(Violation("C13:components:" + "+".join(clauses),
                             f"wrapper stack {stack}: failing clauses {clauses} at {'spaces' if l == 0 else 'probe ' + str(l)}: {ev}",
                             "components", cases[i]))
    return out


def timelimit_histories(ctx: Ctx):
    """TimeLimit(N) for N in 1..6 along enumerated episode histories: every placement of an inner termination
    relative to N (a chain MDP that terminates after exactly k steps, k = 1..N+1, and one that never does)."""
    cases = []
    for N in range(1, 7):
        for k in list(range(1, N + 2)) + [None]:
            nS = 5
            L = k if k is not None else 99
            # chain: states 1..min(L,nS-1) ... use a counter-free construction: state j -> j+1, terminal at state L+1 if it fits
            if k is not None and k + 1 > nS:
                continue
            T = [[min(s + 2, nS)] * 3 + [nS + 1] for s in range(nS)] + [[nS + 1] * 4]
            Term = [False] * (nS + 1)
            if k is not None:
                Term[k] = True           # 0-based index k = state k+1, reached after k steps from state 1
            else:
                T[nS - 1] = [nS - 1] * 3 + [nS + 1]    # bounce between the last two states forever
            cfg = dict(nS=nS, nA=3, T=T, R=[[[1 if (s < nS and a < 3 and s2 < nS) else tb.POISON_R for s2 in range(nS + 1)]
                                             for a in range(4)] for s in range(nS + 1)],
                       Term=Term, ITrunc=[False] * (nS + 1), Init=[1], Obs=list(range(nS)) + [5], hasMask=False,
                       Mask=[[True] * 3] * (nS + 1), akind="disc", alo=0, ahi=2, astep=1, okind="disc", olo=0, ohi=5, nO=6,
                       stack=[tb.wrec("TimeLimit", n=N)])
            cases.append({"cfg": cfg, "actions": [0] * (2 * N + 3), "seed": 11 * N + (k or 0), "scanned": True})
    return cases


def declared_callables_case(shift: int, under: str) -> dict:
    """TransformAction declares TWO maps: of the action and (optionally) of the action mask.  A masked chain environment under a
    cyclic relabelling of its three actions, alone and below / above other wrappers: the wrapper's mask must be the relabelled inner
    mask in every state, and the step taken for a wrapped action must be the inner step of the mapped action."""
    import jax.numpy as jnp
    import jax.random as jr
    import numpy as np
    from lerax.space import Discrete
    from lerax import wrapper as W
    from ..drive_identity import MaskedChain, _CS, NA, NS
    inner = MaskedChain(True)
    env = W.TransformAction(inner, lambda a: (a + shift) % NA, Discrete(NA), lambda m: jnp.roll(m, -shift))
    if under == "TimeLimit":
        env = W.TimeLimit(env, 9)
    elif under == "ClipReward":
        env = W.ClipReward(env, -0.5, 0.5)
    def inner_of(ws):
        while not isinstance(ws, _CS):
            ws = ws.env_state
        return ws
    ok_mask = ok_step = True
    seen = set()
    rng = random.Random(shift)
    for k in range(4):
        ws = env.initial(key=jr.key(k))
        for _ in range(10):
            base = inner_of(ws)
            seen.add(int(base.s))
            im = np.asarray(inner.action_mask(base, key=jr.key(1)))
            wm = np.asarray(env.action_mask(ws, key=jr.key(1)))
            ok_mask &= bool(np.array_equal(wm, np.roll(im, -shift)))
            nxt = None
            for a in range(NA):
                nx = env.transition(ws, jnp.asarray(a), key=jr.key(2))
                inx = inner.transition(base, jnp.asarray((a + shift) % NA), key=jr.key(2))
                ok_step &= bool(int(inner_of(nx).s) == int(inx.s))
                if wm[a] and (nxt is None or rng.random() < 0.5):
                    nxt = nx
            if nxt is None or bool(env.terminal(nxt, key=jr.key(3))) or bool(env.truncate(nxt)):
                break
            ws = nxt
    ok_mask &= len(seen) >= 3
    return {"atoms": {"DeclaredMaskMapIsApplied": bool(ok_mask), "InnerEnvironmentIsFedTheMappedAction": bool(ok_step)},
            "meta": {"shift": shift, "stack": ["TransformAction"] + ([under] if under else [])}}


def declared_callables(ctx: Ctx, rep: Report):
    cases = [dict(shift=s, under=u) for s in (1, 2) for u in ("", "TimeLimit", "ClipReward")]
    items = [declared_callables_case(c["shift"], c["under"]) for c in cases]
    v = tracecheck.validate(ctx, "trace/Trace_Atoms.tla", items, "declared_callables")
    rep.traces += len(items)
    rep.parts["declared_action_and_mask_maps_of_TransformAction"] = {"cases": [i["meta"] for i in items], "accepted": len(v.accepted), "rejected": len(v.rejected)}
    for i, (l, clauses) in sorted(v.rejected.items()):
        rep.violations.append(Violation("C13:declared_callables:" + "+".join(clauses), f"{items[i]['meta']}: {clauses}", "declared_callables", cases[i]))


def run(ctx: Ctx) -> Report:
    from .. import drive_env, drive_wrappers
    rep = Report()
    mc(ctx, rep)
    construct_all(ctx, rep)
    cache = tb.EnvCache()
    # (a) components
    cases = gen_component_cases(ctx, ctx.pick(22, 88), ctx.pick(6, 30))
    traces = [drive_wrappers.record_components(cache, c["cfg"], c["probes"], c["seed"]) for c in cases]
    v = tracecheck.validate(ctx, "trace/Trace_Components.tla", traces, "comp", procs=ctx.pick(2, 8))
    rep.states += v.distinct
    rep.transitions += v.generated
    rep.traces += len(traces)
    rep.evaluations += sum(len(t["events"]) for t in traces)
    rep.parts["C2S_components"] = {"stacks": len(traces), "probes": sum(len(t["events"]) for t in traces),
                                   "accepted": len(v.accepted), "rejected": len(v.rejected),
                                   "kinds_covered": sorted({w["kind"] for t in traces for w in t["cfg"]["stack"]})}
    rep.violations += comp_violations(v, traces, cases)
    good = sorted(v.accepted)
    if not good:
        raise Machinery("C13: no component trace accepted")
    muts = []
    for fld in ("rew", "obs2", "info_idx"):
        m = copy.deepcopy(traces[good[len(muts) % len(good)]])
        ev = [e for e in m["events"] if e["ev"] == "probe"][2]
        ev[fld] += 1
        muts.append(m)
    m = copy.deepcopy(traces[good[0]])
    m["unwrapped_ok"] = False
    muts.append(m)
    vb = tracecheck.validate(ctx, "trace/Trace_Components.tla", muts, "comp_selftest")
    if len(vb.rejected) != len(muts):
        raise Machinery(f"C13 components self-test failed: {vb.accepted}")
    rep.samples.append({"kind": "component probes of a real wrapper stack", "stack": [w["kind"] for w in traces[0]["cfg"]["stack"]],
                        "spaces": traces[0]["spaces"], "events": traces[0]["events"][2:5]})
    # (b) TimeLimit along enumerated histories + stacks through the Gym-style API
    tcases = timelimit_histories(ctx)
    ttraces = [drive_env.record_envapi(cache, c["cfg"], c["actions"], c["seed"]) for c in tcases]
    templates = c01.gen_templates(ctx, ctx.pick(6, 40))
    straces, scases = c01.record(ctx, cache, templates, ctx.pick(30, 120), 16)
    alltr, allcases = ttraces + straces, tcases + scases
    v2 = tracecheck.validate(ctx, "trace/Trace_EnvAPI.tla", alltr, "c13api", procs=ctx.pick(2, 8))
    rep.states += v2.distinct
    rep.transitions += v2.generated
    rep.traces += len(alltr)
    rep.evaluations += sum(len(t["events"]) for t in alltr)
    rep.parts["C2S_envapi_over_stacks"] = {"timelimit_histories": len(ttraces), "random_stack_traces": len(straces),
                                           "accepted": len(v2.accepted), "rejected": len(v2.rejected)}
    for vi in c01.violations_from(v2, alltr, allcases):
        vi.key = vi.key.replace("C01:", "C13:")
        rep.violations.append(vi)
    declared_callables(ctx, rep)
    # (c) adapters
    try:
        from . import adapters
        rep.merge(adapters.run(ctx))
    except ImportError:
        rep.notes.append("adapter traces: driver not present")
    rep.assumptions += ["Rescale* over unbounded boxes (above ClipAction / FlattenObservation) is outside the property ('for bounded boxes')",
                        "Transform* wrappers are exercised with table / affine functions"]
    return rep


def replay(ctx: Ctx, driver: str, case: dict) -> Report:
    from .. import drive_env, drive_wrappers
    rep = Report()
    cache = tb.EnvCache()
    if driver == "declared_callables":
        it = declared_callables_case(case["shift"], case["under"])
        v = tracecheck.validate(ctx, "trace/Trace_Atoms.tla", [it], "replay")
        for i, (l, clauses) in v.rejected.items():
            rep.violations.append(Violation("C13:declared_callables:" + "+".join(clauses), str(it["meta"]), driver, case))
        rep.traces = 1
        return rep
    if driver == "components":
        tr = drive_wrappers.record_components(cache, case["cfg"], [tuple(p) for p in case["probes"]], case["seed"])
        v = tracecheck.validate(ctx, "trace/Trace_Components.tla", [tr], "replay")
        rep.violations += comp_violations(v, [tr], [case])
    elif driver == "envapi":
        tr = drive_env.record_envapi(cache, case["cfg"], case["actions"], case["seed"], scanned=case.get("scanned", True))
        v = tracecheck.validate(ctx, "trace/Trace_EnvAPI.tla", [tr], "replay")
        for vi in c01.violations_from(v, [tr], [case]):
            vi.key = vi.key.replace("C01:", "C13:")
            rep.violations.append(vi)
    elif driver == "construct":
        r2 = Report()
        construct_all(ctx, r2)
        rep.violations += [x for x in r2.violations if x.case["kind"] == case["kind"]]
    else:
        from . import adapters
        return adapters.replay(ctx, driver, case)
    rep.traces = 1
    return rep
