"""C09 - each epoch partitions the rollout into disjoint, intact minibatches.

MC : spec/mc/MC_Minibatch (Minibatch.tla): all (E, S, B, epochs) within bounds x all permutations.
C2S: (i) real flatten_axes / batch_indices / gather / batches / RolloutBuffer.sample on pytree-structured rollouts whose
         every leaf carries the sample's tag; (ii) visit counts decoded from the real PPO.train -> Trace_Minibatch."""
from __future__ import annotations

import copy

from .. import tlc, tracecheck
from ..core import Ctx, Machinery, Report, Violation

LEVEL = "model_checking"
SPEC = "trace/Trace_Minibatch.tla"


def gen_cases(ctx: Ctx):
    rng = ctx.rng
    cases = []
    for i in range(ctx.pick(24, 200)):
        E, S = rng.choice([1, 2, 3, 4]), rng.choice([1, 2, 3, 5, 8])
        N = E * S
        cases.append(dict(kind="api", E=E, S=S, B=rng.randint(1, N), okind=["flat", "dict", "tuple"][i % 3], masks=(i % 2 == 0),
                          seeds=[rng.randrange(1000) for _ in range(ctx.pick(3, 8))]))
    shapes = [(2, 4, 3, 2), (1, 8, 3, 2), (2, 4, 2, 2), (3, 3, 2, 3), (1, 6, 2, 2), (2, 5, 3, 2), (1, 7, 2, 3)] + ([(2, 8, 3, 2), (4, 4, 5, 2), (2, 3, 2, 2)] if ctx.thorough else [])
    for (E, S, nb, ep) in shapes:
        for _ in range(ctx.pick(6, 24)):
            cases.append(dict(kind="train", E=E, S=S, nb=nb, epochs=ep, seed=rng.randrange(2 ** 31)))
    return cases


def record(c):
    from .. import drive_minibatch as dm
    if c["kind"] == "api":
        return dm.record_api(c["E"], c["S"], c["B"], c["okind"], c["masks"], c["seeds"])
    return dm.record_train(c["E"], c["S"], c["nb"], c["epochs"], c["seed"])


def viol(v, traces, cases):
    out = []
    for i, (l, clauses) in sorted(v.rejected.items()):
        ev = traces[i]["events"][l - 1]
        short = {k: (x if k != "rows" else x[:3]) for k, x in ev.items()}
        out.append(Violation(f"C09:{ev['ev']}:" + "+".join(clauses),
                             f"{ev['ev']} on a rollout with cfg={traces[i]['cfg']}: failing clauses {clauses}: {short}",
                             "minibatch", cases[i] if i < len(cases) else {"kind": "family", "trace": traces[i]}))
    return out


def run(ctx: Ctx) -> Report:
    rep = Report()
    for cfgname in (["mc/MC_Minibatch.cfg"] + (["mc/MC_Minibatch_big.cfg"] if ctx.thorough else [])):
        res = tlc.run("mc/MC_Minibatch.tla", cfgname, workdir=ctx.work, workers=16, coverage=True, timeout=3000)
        tlc.require_ok(res, f"MC_Minibatch ({cfgname})")
        rep.add_tlc(cfgname, res)
        if res.distinct < 1000 or res.coverage.get("DoConsume", (0, 0))[1] == 0:
            raise Machinery(f"MC_Minibatch vacuity guard {res.distinct} {res.coverage}")
    cases = gen_cases(ctx)
    traces = [record(c) for c in cases]
    # families: visit-count vectors of all train runs with the same shape (existential fresh-shuffle check)
    fam = {}
    for c, t in zip(cases, traces):
        if c["kind"] == "train" and (c["E"] * c["S"]) % t["cfg"]["B"] != 0 and c["epochs"] >= 2:
            fam.setdefault((c["E"], c["S"], c["nb"], c["epochs"]), []).append(t)
    fam_traces = [{"cfg": ts[0]["cfg"], "events": [dict(ev="family", ks=[t["events"][0]["k"] for t in ts])]} for ts in fam.values()]
    alltr = traces + fam_traces
    v = tracecheck.validate(ctx, SPEC, alltr, "mb", procs=ctx.pick(2, 8))
    rep.states += v.distinct
    rep.transitions += v.generated
    rep.traces += len(alltr)
    rep.evaluations += sum(len(t["events"]) for t in alltr)
    rep.parts["C2S_minibatch"] = {"api_buffers": sum(c["kind"] == "api" for c in cases), "ppo_train_runs": sum(c["kind"] == "train" for c in cases),
                                  "fresh_shuffle_families": len(fam_traces), "accepted": len(v.accepted), "rejected": len(v.rejected)}
    rep.violations += viol(v, alltr, cases)
    good = [i for i in sorted(v.accepted) if i < len(cases) and cases[i]["kind"] == "api" and cases[i]["E"] * cases[i]["S"] >= 4]
    m1 = copy.deepcopy(traces[good[0]])
    ev = next(e for e in m1["events"] if e["ev"] == "batches" and e["rows"])
    ev["rows"][0][-1] += 1                                     # one field of a row from another sample
    m2 = copy.deepcopy(traces[good[0]])
    ev = next(e for e in m2["events"] if e["ev"] == "indices" and len(e["idx"]) and len(e["idx"][0]) >= 1)
    ev["idx"][0][0] = ev["idx"][-1][-1] if (len(ev["idx"]) > 1 or len(ev["idx"][0]) > 1) else ev["idx"][0][0] + 10 ** 6
    tgood = [i for i in sorted(v.accepted) if i < len(cases) and cases[i]["kind"] == "train"]
    m3 = copy.deepcopy(traces[tgood[0]])
    m3["events"][0]["k"][0] += 1
    vb = tracecheck.validate(ctx, SPEC, [m1, m2, m3], "mb_selftest")
    if len(vb.rejected) != 3:
        raise Machinery(f"C09 binding self-test failed: {vb.accepted}")
    rep.parts["binding_self_test"] = {"corrupted_traces_rejected": 3}
    rep.samples.append({"kind": "PPO.train visit counts", "cfg": traces[tgood[0]]["cfg"], "k": traces[tgood[0]]["events"][0]["k"]})
    rep.assumptions += ["visit counts are decoded from value entries trained with plain SGD(1): (v'-ret) = (1-1/B)^k",
                        "fresh shuffle per epoch is decided existentially over the runs of one shape (a reused key can never show a sample "
                        "dropped in one epoch only)"]
    return rep


def replay(ctx: Ctx, driver: str, case: dict) -> Report:
    rep = Report()
    tr = case["trace"] if case.get("kind") == "family" else record(case)
    v = tracecheck.validate(ctx, SPEC, [tr], "replay")
    rep.traces = 1
    rep.violations += viol(v, [tr], [case])
    return rep
