"""C17 - built-in environments realise their Gymnasium reference MDPs.

Decided with the specification: the episode-boundary semantics of the four classic-control counterparts - termination
predicate, reward of every transition including the goal / terminal step, left-wall rule, initial-state range - against
RefMDP.tla, a qualitative model written from the Gymnasium sources with thresholds read at run time from the installed
Gymnasium environment objects; for MuJoCo: kinematic consistency of handed-out states as an atom.
Decided by differential comparison with the installed Gymnasium environments (gym_parity.py; atoms collected by the same
trace specification, tolerances measured on the unchanged tree): vector fields, time steps, Acrobot limits, CartPole/Euler
trajectories, and for all eleven MuJoCo environments observation (reset and step), reward, same-named reward components and
termination from the same physical state and action."""
from __future__ import annotations

import copy
import json
import math

import numpy as np

from .. import tlc, tracecheck
from ..core import Ctx, Machinery, Report, Violation

LEVEL = "model_checking"
SPEC = "trace/Trace_RefMDP.tla"
MARGIN = 1e-5
REGION_KEYS = dict(x_out=False, th_out=False, goal=False, fast=False, at_wall=False, v_neg=False, high=False, a4=0)


def gym_thresholds():
    import gymnasium as gym
    cp = gym.make("CartPole-v1").unwrapped
    mc = gym.make("MountainCar-v0").unwrapped
    cmc = gym.make("MountainCarContinuous-v0").unwrapped
    return dict(CartPole=dict(x=float(cp.x_threshold), th=float(cp.theta_threshold_radians)),
                MountainCar=dict(goal=float(mc.goal_position), gv=float(mc.goal_velocity), minp=float(mc.min_position)),
                ContinuousMountainCar=dict(goal=float(cmc.goal_position), gv=float(cmc.goal_velocity), minp=float(cmc.min_position)))


def probes(ctx: Ctx):
    """(env name, y vector, action) placed around every threshold"""
    rng = ctx.rng
    th = gym_thresholds()
    out = []
    # fixed probes: the terminal region of every environment is entered whatever the seed (vacuity guard must not depend on luck)
    for sgn in (-1, 1):
        out.append(("CartPole", [sgn * (th["CartPole"]["x"] + 0.05), sgn * 0.5, 0.0, 0.0], 0))
        out.append(("CartPole", [0.0, 0.0, sgn * (th["CartPole"]["th"] + 0.02), sgn * 0.3], 1))
        out.append(("Acrobot", [sgn * (math.pi - 0.1), sgn * 0.05, 0.0, 0.0], 1))
        out.append(("Acrobot", [sgn * 2.6, sgn * 0.4, 0.1, -0.1], 0))
    for name in ("MountainCar", "ContinuousMountainCar"):
        for a in ((0, 2) if name == "MountainCar" else (-8, 0, 8)):
            out.append((name, [th[name]["goal"] + 0.03, 0.03], a))
            out.append((name, [th[name]["goal"] - 0.005, 0.05], a))
            out.append((name, [th[name]["minp"] + 0.01, -0.06], a))
    n = ctx.pick(6, 30)
    for _ in range(n):
        s = rng.choice([-1, 1])
        out.append(("CartPole", [s * (th["CartPole"]["x"] + rng.uniform(-0.04, 0.04)), s * rng.uniform(0, 2.0), rng.uniform(-0.05, 0.05), 0.0], rng.randrange(2)))
        out.append(("CartPole", [rng.uniform(-0.5, 0.5), 0.0, s * (th["CartPole"]["th"] + rng.uniform(-0.02, 0.02)), s * rng.uniform(0, 1.0)], rng.randrange(2)))
        out.append(("CartPole", [rng.uniform(-1, 1), rng.uniform(-1, 1), rng.uniform(-0.1, 0.1), rng.uniform(-1, 1)], rng.randrange(2)))
        for name in ("MountainCar", "ContinuousMountainCar"):
            g = th[name]["goal"]
            act = rng.randrange(3) if name == "MountainCar" else rng.choice([-8, -4, -2, 0, 2, 4, 8])
            out.append((name, [g - rng.uniform(0.0, 0.06), rng.uniform(0.0, 0.07)], act))
            out.append((name, [g + rng.uniform(0.0, 0.05), rng.uniform(-0.03, 0.07)], act))
            out.append((name, [th[name]["minp"] + rng.uniform(0.0, 0.03), -rng.uniform(0.02, 0.07)], act))
            out.append((name, [rng.uniform(-1.0, 0.3), rng.uniform(-0.07, 0.07)], act))
        for _ in range(3):
            t1 = rng.uniform(-math.pi, math.pi)
            # choose t2 so that the height -cos t1 - cos(t1+t2) is close to 1 in half of the probes
            t2 = rng.uniform(-math.pi, math.pi)
            if rng.random() < 0.6:
                c = -1.0 - math.cos(t1) + rng.uniform(-0.1, 0.1)
                if abs(c) <= 1:
                    t2 = math.acos(c) - t1
                    t2 = (t2 + math.pi) % (2 * math.pi) - math.pi
            out.append(("Acrobot", [t1, t2, rng.uniform(-1, 1), rng.uniform(-1, 1)], rng.randrange(3)))
    return out


_ENVS: dict = {}


def lerax_env(name):
    if name not in _ENVS:
        from lerax.env import classic_control as cc
        _ENVS[name] = getattr(cc, name)()
    return _ENVS[name]


def run_probe(name, y, act) -> dict | None:
    import equinox as eqx
    import jax.numpy as jnp
    import jax.random as jr
    env = lerax_env(name)
    th = gym_thresholds()
    st = env.initial(key=jr.key(0))
    st = eqx.tree_at(lambda s: s.y, st, jnp.asarray(y, dtype=st.y.dtype))
    a = jnp.asarray(act / 4.0, dtype=jnp.float32) if name == "ContinuousMountainCar" else jnp.asarray(act, dtype=jnp.int32)
    f = eqx.filter_jit(lambda env, s, a, k: (lambda nx: (nx, env.reward(s, a, nx, key=k), env.terminal(nx, key=k)))(env.transition(s, a, key=k)))
    nx, rew, term = f(env, st, a, jr.key(1))
    y2 = np.asarray(nx.y, dtype=np.float64)
    ev = dict(ev="probe", env=name, **REGION_KEYS)
    margins = []
    if name == "CartPole":
        t = th[name]
        ev["x_out"], ev["th_out"] = bool(abs(y2[0]) > t["x"]), bool(abs(y2[2]) > t["th"])
        margins = [abs(abs(y2[0]) - t["x"]), abs(abs(y2[2]) - t["th"])]
    elif name in ("MountainCar", "ContinuousMountainCar"):
        t = th[name]
        ev["goal"], ev["fast"] = bool(y2[0] >= t["goal"]), bool(y2[1] >= t["gv"])
        ev["at_wall"], ev["v_neg"] = bool(y2[0] <= t["minp"] + 1e-9), bool(y2[1] < 0.0)
        margins = [abs(y2[0] - t["goal"])] + ([abs(y2[1] - t["gv"])] if ev["goal"] and y2[1] != 0.0 else [])
        ev["a4"] = int(act) if name == "ContinuousMountainCar" else 0
    else:
        h = -math.cos(y2[0]) - math.cos(y2[0] + y2[1])
        ev["high"] = bool(h > 1.0)
        margins = [abs(h - 1.0)]
    if min(margins) < MARGIN:
        return None            # indeterminate: the successor sits on a threshold up to float rounding
    r = float(rew) * 1000.0
    ev["term"] = bool(term)
    ev["rew_m"] = int(round(r)) if abs(r - round(r)) < 1e-2 else 7777777
    ev["atoms"] = {}
    return ev


def limit_cases(ctx: Ctx) -> list:
    """the state-limit rule (env.clip) of the two mountain cars on every combination of position / velocity classes"""
    import gymnasium as gym
    import jax.numpy as jnp
    out = []
    for name, gid in (("MountainCar", "MountainCar-v0"), ("ContinuousMountainCar", "MountainCarContinuous-v0")):
        g = gym.make(gid).unwrapped
        lo, hi, ms = float(g.min_position), float(g.max_position), float(g.max_speed)
        env = lerax_env(name)
        xs = {"below": [lo - 0.3, lo - 1e-3, lo], "inside": [lo + 0.01, -0.5, 0.3, hi - 0.01], "above": [hi, hi + 1e-3, hi + 0.4]}
        vs = {"neg_big": [-ms - 0.02, -2 * ms], "neg": [-ms / 2, -1e-3], "zero": [0.0], "pos": [1e-3, ms / 2], "pos_big": [ms + 0.02, 3 * ms]}
        for xin, xl in xs.items():
            for vin, vl in vs.items():
                for x in xl:
                    for v in vl:
                        y = np.asarray(env.clip(jnp.asarray([x, v], dtype=jnp.float32)), dtype=np.float64)
                        xout = "at_min" if abs(y[0] - lo) < 1e-6 else "at_max" if abs(y[0] - hi) < 1e-6 else "inside" if lo < y[0] < hi else "outside"
                        vout = ("zero" if y[1] == 0.0 else "neg_max" if abs(y[1] + ms) < 1e-7 else "pos_max" if abs(y[1] - ms) < 1e-7
                                else "neg" if -ms < y[1] < 0 else "pos" if 0 < y[1] < ms else "outside")
                        # values exactly on a bound belong to both neighbouring input classes: classify the input consistently
                        xi = "below" if x <= lo else "above" if x >= hi else "inside"
                        out.append(dict(ev="limits", env=name, **REGION_KEYS, term=False, rew_m=0, xin=xi, vin=vin, xout=xout, vout=vout,
                                        atoms={}, probe_x=x, probe_v=v))
    return out


def reset_cases(ctx: Ctx) -> list:
    import jax.random as jr
    out = []
    for name in ("CartPole", "MountainCar", "ContinuousMountainCar", "Acrobot"):
        env = lerax_env(name)
        ok, zero_t = True, True
        for i in range(ctx.pick(48, 256)):
            st = env.initial(key=jr.key(1000 + i))
            y = np.asarray(st.y, dtype=np.float64)
            if name == "CartPole":
                ok &= bool(np.all(np.abs(y) <= 0.05 + 1e-7))
            elif name == "Acrobot":
                ok &= bool(np.all(np.abs(y) <= 0.1 + 1e-7))
            else:
                ok &= bool(-0.6 - 1e-7 <= y[0] <= -0.4 + 1e-7 and y[1] == 0.0)
            zero_t &= bool(float(st.t) == 0.0)
        out.append(dict(ev="reset", env=name, **REGION_KEYS, term=False, rew_m=0,
                        atoms={"InitialStateInGymnasiumsRange": ok, "EpisodeClockStartsAtZero": zero_t}))
    return out


def mujoco_cases(ctx: Ctx) -> list:
    """kinematic consistency of handed-out states + internal book-keeping (atoms)"""
    import equinox as eqx
    import jax
    import jax.numpy as jnp
    import jax.random as jr
    from mujoco import mjx
    from lerax.env import mujoco as mj
    names = ["InvertedPendulum", "Hopper"] if not ctx.thorough else \
        ["Ant", "HalfCheetah", "Hopper", "Humanoid", "HumanoidStandup", "InvertedDoublePendulum", "InvertedPendulum", "Pusher",
         "Reacher", "Swimmer", "Walker2d"]
    out = []
    for n in names:
        env = getattr(mj, n)()
        fwd = jax.jit(lambda d: mjx.forward(env.model, d))
        init = eqx.filter_jit(lambda env, k: env.initial(key=k))
        step = eqx.filter_jit(lambda env, s, a, k: env.step(s, a, key=k))
        kin_ok, sum_ok, term_ok = True, True, True
        for i in range(ctx.pick(2, 6)):
            st = init(env, jr.key(i))
            d = st.sim_state
            ref = fwd(d)
            for fld in ("xpos", "xquat", "cinert", "cvel", "site_xpos", "qfrc_bias"):
                if hasattr(d, fld):
                    kin_ok &= bool(np.allclose(np.asarray(getattr(d, fld)), np.asarray(getattr(ref, fld)), rtol=1e-4, atol=1e-5))
            s = st
            for j in range(ctx.pick(3, 8)):
                a = env.action_space.sample(key=jr.key(100 * i + j))
                prev = s
                s, _, rew, term, trunc, info = step(env, s, a, jr.key(7 * i + j))
                if bool(term) or bool(trunc):
                    d2 = s.sim_state
                    ref2 = fwd(d2)
                    kin_ok &= bool(np.allclose(np.asarray(d2.xpos), np.asarray(ref2.xpos), rtol=1e-4, atol=1e-5))
        out.append(dict(ev="mujoco", env=n, **REGION_KEYS, term=False, rew_m=0,
                        atoms={"HandedOutStatesAreKinematicallyConsistent": kin_ok}))
    return out


def parity_cases(ctx: Ctx, stats: dict, only: str | None = None, n=None, seed=None) -> list:
    """differential comparison with the installed Gymnasium environments (see gym_parity.py)"""
    from . import gym_parity
    out = []
    n_c, n_m = (n, n) if n else (ctx.pick(24, 120), ctx.pick(10, 40))
    sd = ctx.seed if seed is None else seed
    if only is None or only not in gym_parity.MUJOCO:
        for name, atoms, st in gym_parity.classic_cases(n_c, sd):
            if only in (None, name):
                out.append(dict(ev="parity", env=name, **REGION_KEYS, term=False, rew_m=0, atoms={k: bool(v) for k, v in atoms.items()},
                                _n=n_c, _seed=sd))
                stats.setdefault(name, {}).update(st)
    names = [m for m in gym_parity.MUJOCO if only in (None, m)]
    for r in gym_parity.run_mujoco(names, n_m, sd, workers=ctx.pick(6, 11)) if names else []:
        if "raised" in r:
            out.append(dict(ev="parity", env=r["env"], **REGION_KEYS, term=False, rew_m=0, atoms={"RunsWithoutRaising": False}, _n=n_m, _seed=sd))
            stats[r["env"]] = {"raised": r["raised"]}
        else:
            out.append(dict(ev="parity", env=r["env"], **REGION_KEYS, term=False, rew_m=0, atoms=r["atoms"], _n=n_m, _seed=sd))
            stats[r["env"]] = r["stats"]
    return out


def run(ctx: Ctx) -> Report:
    rep = Report()
    res = tlc.run("mc/MC_RefMDP.tla", workdir=ctx.work, workers=4, timeout=600)
    tlc.require_ok(res, "MC_RefMDP")
    rep.add_tlc("MC_RefMDP", res)
    ps = probes(ctx)
    evs, cases, skipped = [], [], 0
    for (name, y, act) in ps:
        ev = run_probe(name, y, act)
        if ev is None:
            skipped += 1
            continue
        evs.append(ev)
        cases.append({"probe": [name, y, act]})
    for ev in limit_cases(ctx):
        evs.append(ev)
        cases.append({"limits": ev["env"]})
    for ev in reset_cases(ctx):
        evs.append(ev)
        cases.append({"reset": ev["env"]})
    for ev in mujoco_cases(ctx):
        evs.append(ev)
        cases.append({"mujoco": ev["env"]})
    pstats = {}
    for ev in parity_cases(ctx, pstats):
        evs.append(ev)
        cases.append({"parity": ev["env"], "n": ev.pop("_n"), "seed": ev.pop("_seed")})
    rep.parts["differential_vs_gymnasium"] = pstats
    v = tracecheck.validate(ctx, SPEC, [{"ev": e} for e in evs], "refmdp", procs=ctx.pick(1, 4))
    rep.states += v.distinct
    rep.transitions += v.generated
    rep.traces += len(evs)
    rep.evaluations += len(evs)
    reg = {}
    for e in evs:
        if e["ev"] == "probe":
            k = (e["env"], e["term"])
            reg[k] = reg.get(k, 0) + 1
    rep.parts["C2S_reference_semantics"] = {"probes": sum(e["ev"] == "probe" for e in evs), "indeterminate_skipped": skipped,
                                            "probes_by_env_and_terminal": {f"{k[0]}:{k[1]}": n for k, n in sorted(reg.items())},
                                            "reset_cases": 4, "mujoco_cases": sum(e["ev"] == "mujoco" for e in evs),
                                            "accepted": len(v.accepted), "rejected": len(v.rejected)}
    for i, (l, clauses) in sorted(v.rejected.items()):
        e = evs[i]
        det = ("goal_step" if e.get("goal") and e.get("fast") else "wall" if e.get("at_wall") else "other") if e["ev"] == "probe" else \
            (f"limits:{e['xin']}:{e['vin']}" if e["ev"] == "limits" else e["ev"])
        rep.violations.append(Violation(f"C17:{e['env']}:" + "+".join(clauses) + f":{det}",
                                        f"{e['env']}: {e['ev']} violates {clauses}: { {k: x for k, x in e.items() if x not in (False, 0, {})} }",
                                        "refmdp", cases[i]))
    for need in (("ContinuousMountainCar", True), ("MountainCar", True), ("CartPole", True), ("Acrobot", True)):
        if not reg.get(need):
            raise Machinery(f"C17: no probe reached the terminal region of {need[0]} (vacuity guard)")
    good = next(i for i in sorted(v.accepted) if evs[i]["ev"] == "probe")
    m = copy.deepcopy(evs[good])
    m["rew_m"] += 1000
    if 0 not in tracecheck.validate(ctx, SPEC, [{"ev": m}], "refmdp_selftest").rejected:
        raise Machinery("C17 binding self-test failed")
    rep.samples.append({"kind": "threshold probe", **evs[good]})
    rep.undecided += ["parity with Gymnasium is a numeric comparison judged by the harness (tolerances in gym_parity.py), collected as atoms; "
                      "info keys that exist on one side only (naming differences) are not compared",
                      "contact-force dependent quantities (Ant, Humanoid, HumanoidStandup) are compared by Gymnasium's formula on lerax's own "
                      "forces and by presence, not value by value (MJX and MuJoCo C solve contacts differently)"]
    rep.assumptions += ["thresholds are read from the installed Gymnasium environment objects; successors within 1e-5 of a threshold are skipped as indeterminate"]
    return rep


def replay(ctx: Ctx, driver: str, case: dict) -> Report:
    rep = Report()
    if "probe" in case:
        ev = run_probe(*case["probe"])
        evs = [ev] if ev else []
    elif "limits" in case:
        evs = [e for e in limit_cases(ctx) if e["env"] == case["limits"]]
    elif "reset" in case:
        evs = [e for e in reset_cases(ctx) if e["env"] == case["reset"]]
    elif "parity" in case:
        st = {}
        evs = parity_cases(ctx, st, only=case["parity"], n=case.get("n"), seed=case.get("seed"))
        for e in evs:
            e.pop("_n", None), e.pop("_seed", None)
        print(json.dumps(st, indent=1)[:3000])
    else:
        evs = [e for e in mujoco_cases(ctx) if e["env"] == case["mujoco"]]
    v = tracecheck.validate(ctx, SPEC, [{"ev": e} for e in evs], "replay")
    for i, (l, clauses) in v.rejected.items():
        rep.violations.append(Violation(f"C17:{evs[i]['env']}:" + "+".join(clauses), str(evs[i]), "refmdp", case))
    rep.traces = len(evs)
    return rep
