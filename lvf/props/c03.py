"""C03 - advantages and returns equal the GAE definition, cut at episode ends.

MC  : spec/mc/MC_GAE - exhaustive: reverse masked scan (implementation shape) = declarative definition,
      lambda=1 Monte-Carlo, lambda=0 TD, cut at done, on the full bounded case space.
C2S : (a) the same case space fed to the real RolloutBuffer.compute_returns_and_advantages (single streams and
      stacked streams under vmap), results validated by TLC (spec/trace/Trace_GAE);
      (b) advantages/returns of real PPO/A2C/REINFORCE rollouts (Trace_OnPolicy, clauses AdvantagesAreGAE ...)."""
from __future__ import annotations

import copy
import itertools

import numpy as np

from .. import onpolicy_suite as ops
from .. import tlc, tracecheck
from ..core import Ctx, Machinery, Report, Violation

LEVEL = "model_checking"
GAE_CLAUSES = ("AdvantagesAreGAE", "ReturnsAreAdvPlusValue")


def spaces(ctx: Ctx):
    """(T, Rs, Vs, Gs, Ls, den) - must equal the constants of the MC configs used in the same tier."""
    sp = [(3, [-4, 0, 8], [0, 1], [2, 4], [0, 2, 4], 4)]
    if ctx.thorough:
        sp = [(3, [-4, 0, 8, 2], [0, 1], [2, 4, 3], [0, 2, 4], 4), (4, [-4, 0, 8], [0, 1], [2, 4], [0, 2, 4], 4)]
    return sp


def enumerate_cases(T, Rs, Vs, Gs, Ls, den):
    for r in itertools.product(Rs, repeat=T):
        for v in itertools.product(Vs, repeat=T):
            for d in itertools.product([False, True], repeat=T):
                for last in Vs:
                    for gn in Gs:
                        for ln in Ls:
                            yield dict(T=T, r=list(r), v=list(v), d=list(d), last=last, gn=gn, ln=ln, den=den)


def run_real(cases: list, stacked: int = 0) -> list:
    """Feed cases to the real compute_returns_and_advantages; returns [(adv ints, ret ints)]."""
    import jax
    import jax.numpy as jnp
    from lerax.buffer import RolloutBuffer
    T, den = cases[0]["T"], cases[0]["den"]
    D = den ** (2 * T - 1)
    r = jnp.asarray([c["r"] for c in cases], dtype=jnp.float32) / den
    v = jnp.asarray([c["v"] for c in cases], dtype=jnp.float32)
    d = jnp.asarray([c["d"] for c in cases])
    last = jnp.asarray([c["last"] for c in cases], dtype=jnp.float32)
    g = jnp.asarray([c["gn"] for c in cases], dtype=jnp.float32) / den
    lam = jnp.asarray([c["ln"] for c in cases], dtype=jnp.float32) / den

    def one(r, v, d, last, g, lam):
        buf = RolloutBuffer(observations=jnp.zeros_like(r), actions=jnp.zeros_like(r), rewards=r, dones=d,
                            log_probs=jnp.zeros_like(r), values=v, states=None)
        out = buf.compute_returns_and_advantages(last, lam, g)
        return out.advantages, out.returns

    if stacked:
        # per-environment estimation: `stacked` streams share one call, vmapped over the environment axis exactly as
        # collect_rollout is vmapped in iteration(); gamma / lambda are shared within a group
        n = (len(cases) // stacked) * stacked
        def grp(x):
            return x[:n].reshape((n // stacked, stacked) + x.shape[1:])
        f = jax.jit(jax.vmap(lambda r, v, d, last, g, lam: jax.vmap(lambda r1, v1, d1, l1: one(r1, v1, d1, l1, g, lam))(r, v, d, last)))
        adv, ret = f(grp(r), grp(v), grp(d), grp(last), grp(g)[:, 0], grp(lam)[:, 0])
        adv, ret = np.asarray(adv).reshape(n, T), np.asarray(ret).reshape(n, T)
    else:
        adv, ret = jax.jit(jax.vmap(one))(r, v, d, last, g, lam)
        adv, ret = np.asarray(adv), np.asarray(ret)

    def fx(x):
        y = float(x) * D
        return int(round(y)) if abs(y - round(y)) < 1e-3 and abs(y) < 2e9 else 7777777
    return [([fx(a) for a in adv[i]], [fx(a) for a in ret[i]]) for i in range(len(adv))]


def run_cases(ctx: Ctx, rep: Report):
    total = 0
    for (T, Rs, Vs, Gs, Ls, den) in spaces(ctx):
        cases = list(enumerate_cases(T, Rs, Vs, Gs, Ls, den))
        obs = run_real(cases)
        items = [{"c": c, "adv": a, "ret": r} for c, (a, r) in zip(cases, obs)]
        # stacked pass: group cases that share gamma/lambda (sort by them) into 3 parallel streams
        order = sorted(range(len(cases)), key=lambda i: (cases[i]["gn"], cases[i]["ln"]))
        sc = [cases[i] for i in order]
        # keep only complete groups with equal (gn, ln)
        groups = []
        for k in range(0, len(sc) - 2, 3):
            if len({(sc[k + j]["gn"], sc[k + j]["ln"]) for j in range(3)}) == 1:
                groups += sc[k:k + 3]
        sobs = run_real(groups, stacked=3)
        sitems = [{"c": c, "adv": a, "ret": r} for c, (a, r) in zip(groups, sobs)]
        allitems = items + sitems
        v = tracecheck.validate(ctx, "trace/Trace_GAE.tla", allitems, f"gae_T{T}", procs=ctx.pick(6, 14))
        rep.states += v.distinct
        rep.transitions += v.generated
        rep.traces += len(allitems)
        rep.evaluations += len(allitems)
        total += len(allitems)
        rep.parts[f"C2S_GAE_cases_T{T}"] = {"cases_single_stream": len(items), "cases_in_stacked_streams": len(sitems),
                                            "accepted": len(v.accepted), "rejected": len(v.rejected),
                                            "space": {"T": T, "Rs_over_den": Rs, "Vs": Vs, "Gs": Gs, "Ls": Ls, "den": den},
                                            "tlc_wall_s": round(v.wall, 1)}
        for i, (l, clauses) in sorted(v.rejected.items()):
            it = allitems[i]
            rep.violations.append(Violation(
                "C03:GAE:" + "+".join(clauses) + (":stacked" if i >= len(items) else ""),
                f"compute_returns_and_advantages disagrees with GAE on case {it['c']}: observed adv={it['adv']} ret={it['ret']} "
                f"(units 1/{den ** (2 * T - 1)})", "gae_case", {"c": it["c"], "stacked": i >= len(items)}))
        if not rep.samples:
            rep.samples.append({"kind": "GAE case fed to the real compute_returns_and_advantages", **items[len(items) // 3]})
        # binding self-test
        bad = copy.deepcopy(items[7])
        bad["adv"][0] += 1
        vb = tracecheck.validate(ctx, "trace/Trace_GAE.tla", [bad, items[8]], "gae_selftest")
        if 0 not in vb.rejected or 1 not in vb.accepted:
            raise Machinery("GAE binding self-test failed")
    rep.exhaustive = True
    return total


def run(ctx: Ctx) -> Report:
    rep = Report()
    for cfgname in (["mc/MC_GAE.cfg"] if not ctx.thorough else ["mc/MC_GAE_wide.cfg", "mc/MC_GAE_T4.cfg"]):
        res = tlc.run("mc/MC_GAE.tla", cfgname, workdir=ctx.work, workers=16, timeout=3000)
        tlc.require_ok(res, f"MC_GAE ({cfgname})")
        rep.add_tlc(cfgname, res)
        if res.distinct < 20000:
            raise Machinery(f"MC_GAE explored only {res.distinct} cases")
    run_cases(ctx, rep)
    ops.run_c2s(ctx, rep, "C03", ctx.pick(6, 30), ctx.pick(30, 100), only=lambda c: c in GAE_CLAUSES)
    rep.assumptions += ["exact on the dyadic grid (gamma, lambda in quarters, rewards in quarters, integer values): every float32 "
                        "intermediate is representable, TLC's fixed-point integers are the exact oracle",
                        "for fixed done flags GAE is multilinear in (rewards, values): the grid has more points per variable than the degree"]
    rep.undecided += ["arbitrary real-valued rewards/values/gamma/lambda (rounding behaviour is not part of the property)"]
    return rep


def replay(ctx: Ctx, driver: str, case: dict) -> Report:
    if driver == "onpolicy":
        return ops.replay(ctx, "C03", case, only=lambda c: c in GAE_CLAUSES)
    rep = Report()
    c = case["c"]
    if case.get("stacked"):
        obs = run_real([c, c, c], stacked=3)[:1]
    else:
        obs = run_real([c])
    it = {"c": c, "adv": obs[0][0], "ret": obs[0][1]}
    v = tracecheck.validate(ctx, "trace/Trace_GAE.tla", [it], "replay")
    rep.traces = 1
    for i, (l, clauses) in v.rejected.items():
        rep.violations.append(Violation("C03:GAE:" + "+".join(clauses), f"case {c}: observed {it['adv']}", "gae_case", case))
    return rep
