"""C17 - differential comparison with the installed Gymnasium reference implementations (atoms of Trace_RefMDP "parity" events).

Classic control (CartPole, MountainCar, ContinuousMountainCar, Acrobot): the vector field `env.dynamics` against the one the
Gymnasium environment integrates (extracted from its own step / `_dsdt` with its own constants), the time step, Acrobot's state
limits, and CartPole(solver=Euler) trajectories against Gymnasium trajectories.
MuJoCo (all eleven v5 counterparts): from the same physical state (qpos, qvel placed on both sides and forwarded) and the same
in-range action: observation at reset, observation / reward / same-named info components / termination after one step.  The
two simulators (MuJoCo C in float64, MJX in float32) agree to 1e-6 .. 1e-5 on everything that does not pass through a contact
solve; quantities that do (Ant, contact costs) are compared by their median and by Gymnasium's own formula on lerax's forces.

Each MuJoCo environment is run in its own process (one XLA compilation of an MJX step takes 10-30 s):
    python -m lvf.props.gym_parity <EnvName> <n_samples> <seed>      prints one JSON line"""
from __future__ import annotations

import json
import math
import os
import subprocess
import sys

import numpy as np

MUJOCO = ["Ant", "HalfCheetah", "Hopper", "Humanoid", "HumanoidStandup", "InvertedDoublePendulum", "InvertedPendulum", "Pusher",
          "Reacher", "Swimmer", "Walker2d"]
CONTACT_RICH = {"Ant"}                 # physics-dependent quantities: median only (contact solver differences MJX / C)
HAS_CFRC = {"Ant", "Humanoid", "HumanoidStandup"}
TIGHT, LOOSE = 1e-4, 2e-3              # measured on the unchanged tree: <= 5e-5 (all but Ant), median 7e-7 (Ant)


def _dev(x, y) -> float:
    x, y = np.asarray(x, dtype=np.float64), np.asarray(y, dtype=np.float64)
    if x.shape != y.shape:
        return math.inf
    if x.size == 0:
        return 0.0
    d = np.abs(x - y) / (1.0 + np.abs(y))
    return float(np.max(np.where(np.isnan(d), np.inf, d)))


# ------------------------------------------------------------------------------------------------ classic control
def classic_cases(n: int, seed: int) -> list:
    import diffrax
    import equinox as eqx
    import gymnasium as gym
    import jax
    import jax.numpy as jnp
    import jax.random as jr
    from lerax.env import classic_control as cc
    rng = np.random.default_rng(seed)
    out = []

    def field(env):
        return eqx.filter_jit(lambda env, y, a: env.dynamics(jnp.asarray(0.0), y, a))

    # ---- CartPole
    g = gym.make("CartPole-v1").unwrapped
    g.reset(seed=0)
    env = cc.CartPole()
    f = field(env)
    worst = 0.0
    for _ in range(n):
        y = np.array([rng.uniform(-2.4, 2.4), rng.uniform(-3, 3), rng.uniform(-0.21, 0.21), rng.uniform(-3, 3)])
        for a in (0, 1):
            g.state = y.copy()
            g.steps_beyond_terminated = None
            g.step(a)
            fg = (np.asarray(g.state, dtype=np.float64) - y) / g.tau
            worst = max(worst, _dev(f(env, jnp.asarray(y, jnp.float32), jnp.asarray(a)), fg))
    traj = 0.0
    eul = cc.CartPole(solver=diffrax.Euler())
    stepf = eqx.filter_jit(lambda env, s, a: env.transition(s, a, key=jr.key(0)))
    for i in range(max(3, n // 8)):
        g.reset(seed=seed + i)
        y0 = np.asarray(g.state, dtype=np.float64)
        st = eul.initial(key=jr.key(0))
        st = eqx.tree_at(lambda s: s.y, st, jnp.asarray(y0, st.y.dtype))
        for t in range(40):
            a = int(rng.integers(2))
            _, _, term, _, _ = g.step(a)
            st = stepf(eul, st, jnp.asarray(a))
            traj = max(traj, _dev(st.y, g.state))
            if term:
                break
    out.append(("CartPole", {"VectorFieldIsGymnasiums": worst <= 1e-4, "TimeStepIsGymnasiums": abs(float(env.dt) - g.tau) < 1e-6,
                             "EulerSolverReproducesGymnasiumTrajectories": traj <= 1e-3},
                {"field_dev": worst, "euler_traj_dev": traj}))

    # ---- MountainCar / ContinuousMountainCar: acceleration from Gymnasium's own step on a state where nothing is clipped
    for name, gid in (("MountainCar", "MountainCar-v0"), ("ContinuousMountainCar", "MountainCarContinuous-v0")):
        g = gym.make(gid).unwrapped
        g.reset(seed=0)
        env = getattr(cc, name)()
        f = field(env)
        worst = 0.0
        for _ in range(n):
            x, v = rng.uniform(-1.1, 0.4), rng.uniform(-0.03, 0.03)
            acts = (0, 1, 2) if name == "MountainCar" else tuple(rng.uniform(-1.5, 1.5, size=3)) + (1.0, -1.0)
            for a in acts:
                g.state = np.array([x, v], dtype=np.float64)
                if name == "MountainCar":
                    g.step(int(a))
                    la = jnp.asarray(int(a))
                else:
                    g.step(np.array([a], dtype=np.float32))
                    la = jnp.asarray(a, jnp.float32)
                acc = float(g.state[1]) - v
                fl = np.asarray(f(env, jnp.asarray([x, v], jnp.float32), la), dtype=np.float64).reshape(-1)
                worst = max(worst, abs(fl[0] - v), abs(fl[1] - acc) * 100)
        out.append((name, {"VectorFieldIsGymnasiums": worst <= 1e-3, "TimeStepIsGymnasiums": abs(float(env.dt) - 1.0) < 1e-6},
                    {"field_dev_x100": worst}))

    # ---- Acrobot
    g = gym.make("Acrobot-v1").unwrapped
    g.reset(seed=0)
    env = cc.Acrobot()
    f = field(env)
    worst, lim = 0.0, 0.0
    from gymnasium.envs.classic_control.acrobot import bound, wrap
    for _ in range(n):
        y = np.array([rng.uniform(-math.pi, math.pi), rng.uniform(-math.pi, math.pi), rng.uniform(-12, 12), rng.uniform(-28, 28)])
        for a in (0, 1, 2):
            tq = g.AVAIL_TORQUE[a]
            fg = np.asarray(g._dsdt(np.append(y, tq)), dtype=np.float64)[:4]
            worst = max(worst, _dev(f(env, jnp.asarray(y, jnp.float32), jnp.asarray(a)), fg))
        z = np.array([rng.uniform(-9, 9), rng.uniform(-9, 9), rng.uniform(-20, 20), rng.uniform(-40, 40)])
        ref = np.array([wrap(z[0], -math.pi, math.pi), wrap(z[1], -math.pi, math.pi), bound(z[2], -g.MAX_VEL_1, g.MAX_VEL_1),
                        bound(z[3], -g.MAX_VEL_2, g.MAX_VEL_2)])
        got = np.asarray(env.clip(jnp.asarray(z, jnp.float32)), dtype=np.float64)
        # angles are compared on the circle (the two wraps may pick different representatives of +-pi)
        d_ang = [abs(((got[i] - ref[i]) + math.pi) % (2 * math.pi) - math.pi) for i in (0, 1)]
        lim = max(lim, max(d_ang), abs(got[2] - ref[2]), abs(got[3] - ref[3]),
                  0.0 if all(abs(got[i]) <= math.pi + 1e-5 for i in (0, 1)) else 1.0)
    out.append(("Acrobot", {"VectorFieldIsGymnasiums": worst <= 1e-4, "TimeStepIsGymnasiums": abs(float(env.dt) - g.dt) < 1e-6,
                            "StateLimitsAreGymnasiums": lim <= 1e-4}, {"field_dev": worst, "limit_dev": lim}))

    # ---- the same comparisons with NON-default physical parameters: lerax constructor arguments, the same values written into
    # the attributes Gymnasium's step reads (its classic-control environments take no such arguments)
    term_f = eqx.filter_jit(lambda env, y: env.terminal(eqx.tree_at(lambda s: s.y, env.initial(key=jr.key(0)), y), key=jr.key(0)))
    # CartPole
    g = gym.make("CartPole-v1").unwrapped
    g.reset(seed=0)
    P = dict(gravity=11.0, cart_mass=1.4, pole_mass=0.25, half_length=0.8, force_mag=13.0, theta_threshold_radians=0.3, x_threshold=1.9)
    g.gravity, g.masscart, g.masspole, g.length, g.force_mag = P["gravity"], P["cart_mass"], P["pole_mass"], P["half_length"], P["force_mag"]
    g.total_mass, g.polemass_length = g.masspole + g.masscart, g.masspole * g.length
    g.theta_threshold_radians, g.x_threshold = P["theta_threshold_radians"], P["x_threshold"]
    env = cc.CartPole(**P)
    f = field(env)
    worst, tmis = 0.0, 0
    for _ in range(n):
        y = np.array([rng.uniform(-2.4, 2.4), rng.uniform(-3, 3), rng.uniform(-0.4, 0.4), rng.uniform(-3, 3)])
        for a in (0, 1):
            g.state = y.copy()
            g.steps_beyond_terminated = None
            _, _, t_g, _, _ = g.step(a)
            fg = (np.asarray(g.state, dtype=np.float64) - y) / g.tau
            worst = max(worst, _dev(f(env, jnp.asarray(y, jnp.float32), jnp.asarray(a)), fg))
            tmis += int(bool(term_f(env, jnp.asarray(np.asarray(g.state), jnp.float32))) != bool(t_g))
    out.append(("CartPole", {"VectorFieldUnderNonDefaultParametersIsGymnasiums": worst <= 1e-4,
                             "TerminationUnderNonDefaultThresholdsIsGymnasiums": tmis == 0}, {"param_field_dev": worst, "param_termination_mismatches": tmis}))
    # mountain cars
    for name, gid, P, attrs in (("MountainCar", "MountainCar-v0", dict(force=0.0014, gravity=0.0031, goal_position=0.35), ("force", "gravity", "goal_position")),
                                ("ContinuousMountainCar", "MountainCarContinuous-v0", dict(power=0.0021, goal_position=0.3), ("power", "goal_position"))):
        g = gym.make(gid).unwrapped
        g.reset(seed=0)
        for k in attrs:
            setattr(g, k, P[k])
        env = getattr(cc, name)(**P)
        f = field(env)
        worst, tmis = 0.0, 0
        for _ in range(n):
            x, v = rng.uniform(-1.1, 0.55), rng.uniform(-0.03, 0.03)
            acts = (0, 1, 2) if name == "MountainCar" else tuple(rng.uniform(-1.0, 1.0, size=3))
            for a in acts:
                g.state = np.array([x, v], dtype=np.float64)
                if name == "MountainCar":
                    _, _, t_g, _, _ = g.step(int(a))
                    la = jnp.asarray(int(a))
                else:
                    _, _, t_g, _, _ = g.step(np.array([a], dtype=np.float32))
                    la = jnp.asarray(a, jnp.float32)
                if -1.19 < g.state[0] < 0.59:                      # nothing was clipped: the velocity change is the acceleration
                    acc = float(g.state[1]) - v
                    fl = np.asarray(f(env, jnp.asarray([x, v], jnp.float32), la), dtype=np.float64).reshape(-1)
                    if abs(float(g.state[1])) < 0.0699:
                        worst = max(worst, abs(fl[1] - acc) * 100)
                tmis += int(bool(term_f(env, jnp.asarray(np.asarray(g.state), jnp.float32))) != bool(t_g))
        out.append((name, {"VectorFieldUnderNonDefaultParametersIsGymnasiums": worst <= 1e-3,
                           "TerminationUnderNonDefaultGoalIsGymnasiums": tmis == 0}, {"param_field_dev_x100": worst, "param_termination_mismatches": tmis}))
    # Acrobot (Gymnasium hard-codes g = 9.8 inside _dsdt: gravity stays at its default)
    g = gym.make("Acrobot-v1").unwrapped
    g.reset(seed=0)
    P = dict(link_length_1=1.3, link_length_2=0.8, link_mass_1=1.2, link_mass_2=0.7, link_com_pos_1=0.6, link_com_pos_2=0.35, link_moi=1.4)
    g.LINK_LENGTH_1, g.LINK_LENGTH_2, g.LINK_MASS_1, g.LINK_MASS_2 = P["link_length_1"], P["link_length_2"], P["link_mass_1"], P["link_mass_2"]
    g.LINK_COM_POS_1, g.LINK_COM_POS_2, g.LINK_MOI = P["link_com_pos_1"], P["link_com_pos_2"], P["link_moi"]
    env = cc.Acrobot(**P)
    f = field(env)
    worst = 0.0
    for _ in range(n):
        y = np.array([rng.uniform(-math.pi, math.pi), rng.uniform(-math.pi, math.pi), rng.uniform(-12, 12), rng.uniform(-28, 28)])
        for a in (0, 1, 2):
            fg = np.asarray(g._dsdt(np.append(y, g.AVAIL_TORQUE[a])), dtype=np.float64)[:4]
            worst = max(worst, _dev(f(env, jnp.asarray(y, jnp.float32), jnp.asarray(a)), fg))
    out.append(("Acrobot", {"VectorFieldUnderNonDefaultParametersIsGymnasiums": worst <= 1e-4}, {"param_field_dev": worst}))
    return out


# ------------------------------------------------------------------------------------------------ MuJoCo (one process per env)
def mujoco_worker(name: str, n: int, seed: int) -> dict:
    import equinox as eqx
    import gymnasium as gym
    import jax.numpy as jnp
    import jax.random as jr
    from mujoco import mjx
    from lerax.env import mujoco as mj
    g = gym.make(f"{name}-v5").unwrapped
    env = getattr(mj, name)()
    rng = np.random.default_rng(seed)

    @eqx.filter_jit
    def place(env, qpos, qvel):
        st = env.initial(key=jr.key(0))
        d = st.sim_state.replace(qpos=qpos, qvel=qvel)
        d = mjx.forward(env.model, d)
        return eqx.tree_at(lambda s: s.sim_state, st, d)

    @eqx.filter_jit
    def lstep(env, st, a):
        k = jr.key(1)
        nx = env.transition(st, a, key=k)
        return nx, env.observation(nx, key=k), env.reward(st, a, nx, key=k), env.terminal(nx, key=k), env.transition_info(st, a, nx)

    obs_l = eqx.filter_jit(lambda env, st: env.observation(st, key=jr.key(0)))
    term_l = eqx.filter_jit(lambda env, st: env.terminal(st, key=jr.key(0)))
    init_l = eqx.filter_jit(lambda env, k: env.initial(key=k))

    ncf = int(g.data.cfrc_ext[1:].size) if (name in HAS_CFRC and getattr(g, "_include_cfrc_ext_in_observation", False)) else 0
    contact_key = {"Ant": "reward_contact", "Humanoid": "reward_contact", "HumanoidStandup": "reward_impact"}.get(name)
    D = {"reset_obs": [], "own_reset_obs": [], "obs": [], "obs_contact": [], "rew": [], "comps": {}}
    term_mis, term_seen, cf_seen, cf_missing, cf_formula = 0, 0, 0, 0, 0.0
    FREE = {"main": [], "param": []}

    import mujoco

    def canonical(qpos):
        """same physical state, quaternions normalised (MJX normalises them in place, MuJoCo C only internally)"""
        q = np.array(qpos, dtype=np.float64)
        mujoco.mj_normalizeQuat(g.model, q)
        return q

    for i in range(max(3, n // 3)):
        g.reset(seed=seed + i)
        qpos, qvel = canonical(g.data.qpos), g.data.qvel.copy()
        g.set_state(qpos, qvel)
        st = place(env, jnp.asarray(qpos, jnp.float32), jnp.asarray(qvel, jnp.float32))
        D["reset_obs"].append(_dev(obs_l(env, st), g._get_obs()))
        own = init_l(env, jr.key(seed * 1000 + i))
        g.reset(seed=seed + i)
        g.set_state(np.asarray(own.sim_state.qpos, dtype=np.float64), np.asarray(own.sim_state.qvel, dtype=np.float64))
        D["own_reset_obs"].append(_dev(obs_l(env, own), g._get_obs()))

    # placed states far from anything a random rollout reaches (large positions / angles / velocities): observation at the
    # placed state (fresh derived quantities on both sides, no physics) and the termination predicate on Gymnasium's successor
    D["placed_obs"] = []
    m = g.model
    for i in range(n):
        g.reset(seed=seed + 500 + i)
        qpos, qvel = g.data.qpos.copy(), g.data.qvel.copy()
        for j in range(m.njnt):
            t, qa, da = int(m.jnt_type[j]), int(m.jnt_qposadr[j]), int(m.jnt_dofadr[j])
            if t == 0:                                    # free joint
                if rng.random() < 0.7:
                    qpos[qa:qa + 3] += rng.uniform(-30, 30, size=3) * (rng.random(3) < 0.5)
                if rng.random() < 0.5:
                    qpos[qa + 3:qa + 7] = rng.normal(size=4)
                if rng.random() < 0.5:
                    qvel[da:da + 6] = rng.uniform(-15, 15, size=6)
            elif t == 1:                                  # ball joint
                qpos[qa:qa + 4] = rng.normal(size=4)
            else:                                         # slide / hinge
                if rng.random() < 0.5:
                    qpos[qa] += rng.uniform(-30, 30)
                if rng.random() < 0.5:
                    qvel[da] = rng.uniform(-15, 15)
        qpos = canonical(qpos)
        g.set_state(qpos, qvel)
        o_g = np.asarray(g._get_obs(), dtype=np.float64)
        st = place(env, jnp.asarray(qpos, jnp.float32), jnp.asarray(qvel, jnp.float32))
        o_l = np.asarray(obs_l(env, st), dtype=np.float64)
        k = len(o_g) - ncf
        D["placed_obs"].append(_dev(o_l[:k], o_g[:k]) if o_l.shape == o_g.shape else math.inf)
        _, _, t_g, _, _ = g.step(np.zeros(g.action_space.shape, dtype=np.float32))
        if np.all(np.isfinite(g.data.qpos)) and np.all(np.isfinite(g.data.qvel)) and float(g.data.time) > 0:
            st_g = place(env, jnp.asarray(canonical(g.data.qpos), jnp.float32), jnp.asarray(g.data.qvel, jnp.float32))
            term_seen += int(bool(t_g))
            term_mis += int(bool(term_l(env, st_g)) != bool(t_g))

    for i in range(n):
        g.reset(seed=seed + 100 + i)
        for _ in range(int(rng.integers(0, 3)) if (name in CONTACT_RICH and i % 2 == 0) else int(rng.integers(0, 40))):
            # (the space's own sample() draws from an unseeded generator: the visited states, and with them how many samples
            # touch the ground, would differ from run to run)
            _, _, t, _, _ = g.step(rng.uniform(g.action_space.low, g.action_space.high).astype(np.float32))
            if t:
                break
        qpos, qvel = canonical(g.data.qpos), g.data.qvel.copy()
        g.data.ctrl[:] = 0
        g.set_state(qpos, qvel)
        st = place(env, jnp.asarray(qpos, jnp.float32), jnp.asarray(qvel, jnp.float32))
        a = rng.uniform(g.action_space.low, g.action_space.high).astype(np.float32)
        nc0 = int(g.data.ncon)
        o_g, r_g, t_g, _, info_g = g.step(a)
        FREE["main"].append(nc0 == 0 and int(g.data.ncon) == 0)       # no contact before or after the step in MuJoCo C
        nx, o_l, r_l, t_l, info_l = lstep(env, st, jnp.asarray(a))
        o_l = np.asarray(o_l, dtype=np.float64)
        if o_l.shape != np.asarray(o_g).shape:
            D["obs"].append(math.inf)
        else:
            k = len(o_g) - ncf
            D["obs"].append(_dev(o_l[:k], o_g[:k]))
            if ncf:
                D["obs_contact"].append(_dev(o_l[k:], o_g[k:]))
        cg = float(info_g.get(contact_key, 0.0)) if contact_key else 0.0
        cl = float(info_l.get(contact_key, 0.0)) if contact_key else 0.0
        D["rew"].append(_dev(float(r_l) - cl, float(r_g) - cg))
        for key, v in info_g.items():
            if key in info_l and np.ndim(v) == 0 and key != contact_key:
                D["comps"].setdefault(key, []).append(_dev(info_l[key], v))
        # termination predicate, physics-free: lerax's predicate on Gymnasium's own successor state
        st_g = place(env, jnp.asarray(g.data.qpos, jnp.float32), jnp.asarray(g.data.qvel, jnp.float32))
        term_seen += int(bool(t_g))
        term_mis += int(bool(term_l(env, st_g)) != bool(t_g))
        if name in HAS_CFRC:
            cfl = np.asarray(nx.sim_state.cfrc_ext, dtype=np.float64)
            if float(np.abs(g.data.cfrc_ext).max()) > 1.0:
                cf_seen += 1
                cf_missing += int(float(np.abs(cfl).max()) == 0.0)
            if name == "Ant":
                lo, hi = g._contact_force_range
                want = -g._contact_cost_weight * float(np.sum(np.square(np.clip(cfl, lo, hi))))
            elif name == "Humanoid":
                lo, hi = g._contact_cost_range
                want = -float(np.clip(g._contact_cost_weight * float(np.sum(np.square(cfl))), lo, hi))
            else:
                lo, hi = g._impact_cost_range
                want = -float(np.clip(g._impact_cost_weight * float(np.sum(np.square(cfl))), lo, hi))
            cf_formula = max(cf_formula, _dev(cl, want))

    # non-default observation options: the same option on both sides, observation of the same reset state
    import inspect
    import re
    D["option_obs"] = []
    variants = []
    for pname, par in inspect.signature(type(env).__init__).parameters.items():
        if isinstance(par.default, bool) and (pname.startswith("include_") or pname.startswith("exclude_")):
            variants.append({pname: not par.default})
    for kw in variants:
        try:
            g2 = gym.make(f"{name}-v5", **kw).unwrapped
        except TypeError:
            continue                                   # Gymnasium has no such option: nothing to compare with
        env2 = type(env)(**kw)
        g2.reset(seed=seed)
        qpos, qvel = canonical(g2.data.qpos), g2.data.qvel.copy()
        g2.set_state(qpos, qvel)
        st2 = place(env2, jnp.asarray(qpos, jnp.float32), jnp.asarray(qvel, jnp.float32))
        o2 = np.asarray(obs_l(env2, st2), dtype=np.float64)
        declared = tuple(np.asarray(env2.observation_space.low).shape)
        D["option_obs"].append(_dev(o2, g2._get_obs()) if o2.shape == declared else math.inf)

    # non-default NUMERIC parameters (weights, healthy ranges, ...): the same values on both sides; states perturbed around the reset
    # pose so that they straddle the (now asymmetric) healthy ranges; termination physics-free, reward and components after a step
    D["param_rew"], D["param_comps"] = [], {}
    dead_params: list = []
    pterm_mis = pterm_seen = 0
    pcf_formula = 0.0
    try:
        gcls = type(g)
        lsig, gsig = inspect.signature(type(env).__init__).parameters, inspect.signature(gcls.__init__).parameters
        kw = {}
        for pname, par in lsig.items():
            if pname in ("self", "frame_skip") or pname not in gsig:
                continue
            dflt = par.default
            if isinstance(dflt, bool) or dflt is inspect.Parameter.empty:
                continue
            if isinstance(dflt, (int, float)) and not isinstance(dflt, bool) and np.isfinite(dflt) and isinstance(gsig[pname].default, (int, float)):
                kw[pname] = float(dflt) * 1.5 + 0.05
            elif isinstance(dflt, tuple) and len(dflt) == 2 and all(isinstance(x, (int, float)) for x in dflt) and isinstance(gsig[pname].default, tuple):
                lo_, hi_ = float(dflt[0]), float(dflt[1])
                hi2 = hi_ if not np.isfinite(hi_) else (hi_ * 0.85 if hi_ > 0 else hi_ * 1.2 - 0.02)
                # an open lower end (cost ranges (-inf, hi)) becomes a small positive bound, so that BOTH ends of the range act
                lo2 = (0.005 * hi2 if np.isfinite(hi2) and hi2 > 0 else lo_) if not np.isfinite(lo_) else (lo_ * 0.4 if lo_ < 0 else lo_ * 1.1 + 0.02)
                if lo2 < hi2:
                    kw[pname] = (lo2, hi2)
        kw.pop("reset_noise_scale", None)
        # a parameter Gymnasium accepts and stores but never reads (HumanoidStandup-v5 `uph_cost_weight`: its documentation
        # multiplies the upward term by it, its code does not) is no reference for anything: leave it at the default
        gsrc = inspect.getsource(gcls)
        dead = sorted(k for k in kw if len(re.findall(r"self\._%s\b" % re.escape(k), gsrc)) <= 1)
        for k in dead:
            kw.pop(k)
        dead_params[:] = dead
        if kw:
            g3 = gym.make(f"{name}-v5", **kw).unwrapped
            env3 = type(env)(**kw)
            for i in range(n):
                g3.reset(seed=seed + 900 + i)
                qpos, qvel = g3.data.qpos.copy(), g3.data.qvel.copy()
                for j in range(m.njnt):
                    t, qa = int(m.jnt_type[j]), int(m.jnt_qposadr[j])
                    if t == 0:
                        qpos[qa + 2] += rng.uniform(-0.6, 0.6)
                    elif t in (2, 3) and rng.random() < 0.6:
                        qpos[qa] += rng.uniform(-1.2, 1.2)
                qpos = canonical(qpos)
                g3.data.ctrl[:] = 0
                g3.set_state(qpos, qvel)
                st = place(env3, jnp.asarray(qpos, jnp.float32), jnp.asarray(qvel, jnp.float32))
                a = rng.uniform(g3.action_space.low, g3.action_space.high).astype(np.float32)
                nc0 = int(g3.data.ncon)
                _, r_g, t_g, _, info_g = g3.step(a)
                FREE["param"].append(nc0 == 0 and int(g3.data.ncon) == 0)
                nx3, _, r_l, _, info_l = lstep(env3, st, jnp.asarray(a))
                cg = float(info_g.get(contact_key, 0.0)) if contact_key else 0.0
                cl = float(info_l.get(contact_key, 0.0)) if contact_key else 0.0
                D["param_rew"].append(_dev(float(r_l) - cl, float(r_g) - cg))
                if name in HAS_CFRC:        # Gymnasium's contact formula with the NON-default weight and (two-sided) range, on lerax's own forces
                    cfl = np.asarray(nx3.sim_state.cfrc_ext, dtype=np.float64)
                    if name == "Ant":
                        lo, hi = g3._contact_force_range
                        want = -g3._contact_cost_weight * float(np.sum(np.square(np.clip(cfl, lo, hi))))
                    elif name == "Humanoid":
                        lo, hi = g3._contact_cost_range
                        want = -float(np.clip(g3._contact_cost_weight * float(np.sum(np.square(cfl))), lo, hi))
                    else:
                        lo, hi = g3._impact_cost_range
                        want = -float(np.clip(g3._impact_cost_weight * float(np.sum(np.square(cfl))), lo, hi))
                    pcf_formula = max(pcf_formula, _dev(cl, want))
                for key, v in info_g.items():
                    if key in info_l and np.ndim(v) == 0 and key != contact_key:
                        D["param_comps"].setdefault(key, []).append(_dev(info_l[key], v))
                if np.all(np.isfinite(g3.data.qpos)) and np.all(np.isfinite(g3.data.qvel)):
                    st_g = place(env3, jnp.asarray(canonical(g3.data.qpos), jnp.float32), jnp.asarray(g3.data.qvel, jnp.float32))
                    pterm_seen += int(bool(t_g))
                    pterm_mis += int(bool(term_l(env3, st_g)) != bool(t_g))
    except TypeError:
        kw = {}                                        # a parameter Gymnasium does not accept in this form: nothing to compare with

    def judge(vals, physics: bool, which: str = "main") -> bool:
        if not vals:
            return True
        v = np.asarray(vals, dtype=np.float64)
        if physics and name in CONTACT_RICH:
            # one C step against one MJX step through a contact solve differs by 1e-2 on the samples that touch the ground (and
            # a sample without contact at the step's ends may still touch in between): judged on the lower quartile - a wrong formula
            # shifts every sample.  Every second sample of a contact-rich environment comes from the first two steps after a reset,
            # when the body is still falling, so the lower quartile is contact-free whatever the seed.
            return bool(np.quantile(v, 0.25) <= TIGHT)
        if physics:
            # one MuJoCo C step against one MJX step: a contact that opens or closes in one simulator only gives a rare outlier
            return bool(np.median(v) <= TIGHT and np.quantile(v, 0.9) <= LOOSE)
        return bool(np.median(v) <= TIGHT and np.max(v) <= LOOSE)

    physics_free = {"reward_ctrl", "reward_survive", "reward_quadctrl"}
    comps_ok = all(judge(v, key not in physics_free) for key, v in D["comps"].items())
    atoms = {
        "TimeStepIsGymnasiums": bool(abs(float(env.dt) - float(g.dt)) < 1e-7 and int(env.frame_skip) == int(g.frame_skip)),
        "ResetObservationIsGymnasiums": bool(judge(D["reset_obs"], False) and judge(D["own_reset_obs"], False)),
        "ObservationOfPlacedStatesIsGymnasiums": judge(D["placed_obs"], False),
        "ObservationUnderNonDefaultOptionsIsGymnasiums": judge(D["option_obs"], False),
        "StepObservationIsGymnasiums": judge(D["obs"], True),
        "RewardIsGymnasiums": judge(D["rew"], True),
        "RewardComponentsAreGymnasiums": bool(comps_ok),
        "TerminationIsGymnasiums": term_mis == 0,
    }
    if kw:
        atoms["RewardUnderNonDefaultParametersIsGymnasiums"] = bool(judge(D["param_rew"], True, "param") and all(
            judge(v, key not in physics_free, "param") for key, v in D["param_comps"].items()))
        atoms["TerminationUnderNonDefaultParametersIsGymnasiums"] = pterm_mis == 0
    if name in HAS_CFRC:
        # a contact that exists in MuJoCo C only (marginal penetration) is possible for a single sample; forces that are never
        # computed are missing in every sample
        atoms["ContactForcesArePresentWhenGymnasiumReportsThem"] = bool(cf_seen == 0 or cf_missing <= cf_seen // 2)
        atoms["ContactCostFollowsGymnasiumsFormula"] = cf_formula <= 1e-3
        atoms["ContactCostUnderNonDefaultWeightAndRangeFollowsGymnasiumsFormula"] = pcf_formula <= 1e-3
    stats = {"samples": n, "contact_free_samples": int(sum(FREE["main"])), "contact_free_samples_non_default_parameters": int(sum(FREE["param"])),
             "terminated_in_gym": term_seen, "termination_mismatches": term_mis, "contact_samples": cf_seen,
             "contact_missing": cf_missing, "contact_formula_dev": cf_formula, "contact_formula_dev_under_non_default_parameters": pcf_formula, "parameters_gymnasium_never_reads": dead_params, "non_default_parameters": {k: (list(v) if isinstance(v, tuple) else v) for k, v in kw.items()},
             "terminated_under_non_default_parameters": pterm_seen, "termination_mismatches_under_non_default_parameters": pterm_mis,
             "q25": {k: float(np.quantile(v, 0.25)) for k, v in D.items() if isinstance(v, list) and v},
             "median": {k: float(np.median(v)) for k, v in D.items() if isinstance(v, list) and v},
             "max": {k: float(np.max(v)) for k, v in D.items() if isinstance(v, list) and v},
             "comps_max": {k: float(np.max(v)) for k, v in D["comps"].items()}}
    return {"env": name, "atoms": atoms, "stats": stats}


def run_mujoco(names: list, n: int, seed: int, workers: int = 6) -> list:
    """one subprocess per environment (inherits PYTHONPATH, so a scratch worktree is honoured)"""
    from concurrent.futures import ThreadPoolExecutor
    from ..core import Machinery
    env = dict(os.environ)
    env.setdefault("JAX_PLATFORMS", "cpu")
    env["XLA_FLAGS"] = env.get("XLA_FLAGS", "") + " --xla_force_host_platform_device_count=1"

    def one(nm):
        p = subprocess.run([sys.executable, "-m", "lvf.props.gym_parity", nm, str(n), str(seed)], capture_output=True, text=True,
                           env=env, cwd=str(__import__("pathlib").Path(__file__).resolve().parents[2]), timeout=2400)
        line = next((l for l in reversed(p.stdout.splitlines()) if l.startswith("{")), None)
        if p.returncode != 0 or line is None:
            return {"env": nm, "error": (p.stderr or p.stdout)[-3000:]}
        return json.loads(line)
    with ThreadPoolExecutor(max_workers=workers) as ex:
        res = list(ex.map(one, names))
    for r in res:
        if "error" in r:
            raise Machinery(f"gym parity worker for {r['env']} failed: {r['error'][-800:]}")
    return res


if __name__ == "__main__":
    os.environ.setdefault("JAX_PLATFORMS", "cpu")
    try:
        r = mujoco_worker(sys.argv[1], int(sys.argv[2]), int(sys.argv[3]))
    except Exception as ex:          # an exception raised inside lerax itself is reported as a violation by the parent
        from ..check import _raised_inside_lerax
        v = _raised_inside_lerax("C17", ex)
        if v is None:
            raise
        r = {"env": sys.argv[1], "raised": v.what, "key": v.key}
    print(json.dumps(r))
