"""C08 - on-policy losses equal the published objectives (PPO clip, A2C, REINFORCE).

MC : spec/mc/MC_Losses (Losses.tla): zero derivative outside the clip, on-policy identities, value clipping monotone.
S2C: the static PPO.ppo_loss / A2C.a2c_loss / REINFORCE.reinforce_loss (+ their gradients) on tabular policies for all
     combinations of ratio / advantage sign / flags / coefficients, and PPO.train_batch for the optimiser clause; every case
     judged by TLC (Trace_Losses).
     End to end: buffers filled by the REAL collectors with a policy whose law depends on observation, carried policy state and
     action mask; the real losses and the real train on them with the unchanged policy (ratio 1, approx KL 0, policy term from the
     recorded log-probabilities) - drive_identity."""
from __future__ import annotations

import copy
import itertools

from .. import tracecheck
from ..core import Ctx, Machinery, Report
from . import c07

LEVEL = "model_checking"


def gen_cases(ctx: Ctx):
    rng = ctx.rng
    cases = []
    RQ, AS = [2, 3, 4, 5, 6], [-2, -1, 1, 2]
    pairs = list(itertools.product(RQ, AS))
    # PPO: every (ratio, advantage) pair appears; batches of 2..4 samples
    for (rq0, a0) in pairs:
        for _ in range(ctx.pick(3, 8)):
            B = rng.choice([2, 3, 4])
            normalize = rng.random() < 0.4
            if normalize:
                B = rng.choice([2, 4])
                s = abs(a0)
                signs = [1, -1] * (B // 2)
                rng.shuffle(signs)
                As = [s * x for x in signs]
                As[0] = a0 if a0 in As else As[0]
                if sum(As) != 0:
                    As = [s, -s] * (B // 2)
                astd = s
            else:
                As = [a0] + [rng.choice(AS) for _ in range(B - 1)]
                astd = 1
            S = [dict(rq=(rq0 if i == 0 else rng.choice(RQ)), A=As[i], v4=rng.choice([0, 3, 6, -2]), vold4=rng.choice([1, 2, 4]),
                      ret4=rng.choice([0, 2, 6, 5]), ent4=rng.choice([0, 2, 4]), lp4=0) for i in range(B)]
            cases.append(("ppo", dict(S=S, normalize=normalize, astd=astd, clipv=rng.random() < 0.5, cv2=rng.choice([0, 1, 2]),
                                      ce2=rng.choice([0, 1, 2])), False))
    # on-policy batches (all ratios 1)
    for _ in range(ctx.pick(6, 30)):
        B = rng.choice([2, 3])
        S = [dict(rq=4, A=rng.choice(AS), v4=rng.choice([0, 3]), vold4=1, ret4=rng.choice([0, 6]), ent4=rng.choice([0, 2]), lp4=0) for _ in range(B)]
        cases.append(("ppo", dict(S=S, normalize=False, astd=1, clipv=rng.random() < 0.5, cv2=1, ce2=rng.choice([0, 2])), False))
    for kind in ("a2c", "reinforce"):
        for _ in range(ctx.pick(20, 120)):
            B = rng.choice([2, 3, 4])
            normalize = rng.random() < 0.3 and B % 2 == 0
            s = rng.choice([1, 2])
            As = ([s, -s] * (B // 2)) if normalize else [rng.choice(AS) for _ in range(B)]
            S = [dict(rq=4, A=As[i], v4=rng.choice([0, 3, 6, -2]), vold4=0, ret4=rng.choice([0, 2, 6, 5]), ent4=rng.choice([0, 2, 4]),
                      lp4=rng.choice([-1, -3, -6, -8])) for i in range(B)]
            cases.append((kind, dict(S=S, normalize=normalize, astd=s if normalize else 1, clipv=False, cv2=rng.choice([0, 1, 2]),
                                     ce2=rng.choice([0, 1, 2])), False))
    for (mx, sc) in ((0.5, 2.0), (5.0, 0.5), (1.0, 4.0), (0.25, 0.5)):
        cases.append(("optim", mx, sc))
    # on-policy identities on buffers filled by the real collectors (stateful policy, action masks, several environments)
    for an in ("PPO", "A2C", "REINFORCE"):
        for masked, stateful in ((True, True), (False, True), (True, False)):
            for N, T in ((2, 8), (1, 8))[:ctx.pick(1, 2)]:
                for _ in range(ctx.pick(2, 6)):
                    cases.append(("identity", an, N, T, masked, stateful, rng.randrange(10 ** 6)))
    # learners CONFIGURED with non-default coefficients: what their real train minimises / reports / returns
    for an in ("PPO", "A2C", "REINFORCE"):
        for _ in range(ctx.pick(1, 3)):
            cases.append(("carried", an, rng.randrange(10 ** 6)))
        for normalize, clipv in ((False, True), (True, False), (False, False), (True, True))[:4 if an == "PPO" else 2]:
            for _ in range(ctx.pick(1, 4)):
                cases.append(("configured", an, normalize, clipv, rng.randrange(10 ** 6)))
    return cases


def record(case):
    from .. import drive_losses as dl
    kind = case[0]
    if kind == "optim":
        return dl.optim_case(case[1], case[2])
    if kind == "identity":
        from .. import drive_identity as di
        return dict(di.identity_case(*case[1:]), c={})
    if kind == "carried":
        from .. import drive_identity as di
        return dict(di.carried_state_case(*case[1:]), c={})
    if kind == "configured":
        from .. import drive_identity as di
        return dict(di.routing_case(*case[1:]), c={})
    return {"ppo": dl.ppo_case, "a2c": dl.a2c_case, "reinforce": dl.reinforce_case}[kind](case[1])


def run(ctx: Ctx) -> Report:
    rep = Report()
    c07.run_mc(ctx, rep)
    cases = gen_cases(ctx)
    evs = [record(c) for c in cases]
    v = c07.judge(ctx, rep, "C08", evs, cases, "pg_losses")
    good = next(i for i in sorted(v.accepted) if evs[i]["ev"] == "ppo" and evs[i]["c"]["clipv"])
    m = copy.deepcopy(evs[good])
    m["value_x"] += 700
    m2 = copy.deepcopy(evs[good])
    m2["gsupport"][0] = not m2["gsupport"][0]
    vb = tracecheck.validate(ctx, c07.SPEC, [{"ev": m}, {"ev": m2}], "pg_selftest")
    if len(vb.rejected) != 2:
        raise Machinery("C08 binding self-test failed")
    rep.parts["binding_self_test"] = {"corrupted_cases_rejected": 2}
    rep.samples.append({"kind": "PPO loss case", **evs[good]})
    rep.assumptions += ["ratios are realised as exp(ln ratio): tolerance 2e-5; advantage normalisation only on batches with integer std"]
    rep.undecided += ["numeric value of approx_kl off-policy", "irrational standard deviations in advantage normalisation"]
    return rep


def replay(ctx: Ctx, driver: str, case: dict) -> Report:
    rep = Report()
    cs = tuple(case["case"])
    c07.judge(ctx, rep, "C08", [record(cs)], [cs], "replay")
    return rep
