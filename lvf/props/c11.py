"""C11 - training is reproducible, pure, and unaffected by observers.

MC : spec/mc/MC_Purity (two lock-step copies of the training loop with arbitrary observer states never diverge), with the
     mutant spec/mutants/Purity_leak (a training step that reads observer state) as a vacuity guard.
C2S: families of real learn() runs (PPO, DQN; thorough: + A2C, REINFORCE, SAC) x observer sets {none, [], LoggingCallback
     over a recording backend, ProgressBar, both; thorough: + TensorBoard} x 2 keys x 2 repetitions; interned parameter
     digests -> Trace_Purity.  Thin: the specification contributes the pairing logic; the substance is the recorded digests."""
from __future__ import annotations

import copy
import tempfile

import numpy as np

from .. import tlc, tracecheck
from ..core import Ctx, Machinery, Report, Violation

LEVEL = "model_checking"
SPEC = "trace/Trace_Purity.tla"


def observer_sets(ctx: Ctx):
    from lerax.callback import LoggingCallback, ProgressBarCallback
    from ..drive_onpolicy import RecordingBackend
    sets = [("none", lambda total: None), ("empty_list", lambda total: []),
            ("logging", lambda total: LoggingCallback(RecordingBackend(), name="lvf_c11")),
            ("logging_and_progress", lambda total: [LoggingCallback(RecordingBackend(), name="lvf_c11"), ProgressBarCallback(total_timesteps=total)])]
    if ctx.thorough:
        from lerax.callback import TensorBoardBackend
        sets.append(("progress", lambda total: ProgressBarCallback(total_timesteps=total)))
        sets.append(("tensorboard", lambda total: LoggingCallback(TensorBoardBackend(tempfile.mkdtemp(prefix="lvf_tb_")), name="lvf_c11")))
    return sets


def setups(ctx: Ctx):
    """(name, make() -> (algo, env, policy_factory(key), total))"""
    import jax.random as jr
    from lerax.algorithm import A2C, DQN, PPO, REINFORCE, SAC
    from lerax.env.classic_control import CartPole, Pendulum
    from lerax.policy import MLPActorCriticPolicy, MLPQPolicy, MLPSACPolicy
    out = [("PPO", lambda: (PPO(num_envs=2, num_steps=8, num_epochs=2, num_batches=2), CartPole(),
                            lambda k: MLPActorCriticPolicy(env=CartPole(), key=k), 48)),
           ("DQN", lambda: (DQN(buffer_size=64, learning_starts=8, num_envs=1, num_steps=2, batch_size=4, target_update_interval=2),
                            CartPole(), lambda k: MLPQPolicy(env=CartPole(), width_size=8, depth=1, key=k), 8))]
    if ctx.thorough:
        out += [("A2C", lambda: (A2C(num_envs=2, num_steps=8), CartPole(), lambda k: MLPActorCriticPolicy(env=CartPole(), key=k), 48)),
                ("REINFORCE", lambda: (REINFORCE(num_envs=1, num_steps=8), CartPole(), lambda k: MLPActorCriticPolicy(env=CartPole(), key=k), 24)),
                ("SAC", lambda: (SAC(buffer_size=64, learning_starts=8, num_envs=1, num_steps=1, batch_size=4, q_width_size=8, q_depth=1),
                                 Pendulum(), lambda k: MLPSACPolicy(Pendulum(), feature_size=8, width_size=8, depth=1, key=k), 4))]
    return out


def leaves(tree):
    import equinox as eqx
    import jax
    return [np.asarray(x) for x in jax.tree.leaves(eqx.filter(tree, eqx.is_array))]


def record_family(ctx: Ctx, name, make) -> dict:
    import jax
    import jax.random as jr
    algo, env, mkpol, total = make()
    runs, params = [], []
    bits_ids = {}
    import jax.numpy as jnp
    # keys 1, 2: integer seeds.  keys 3..6: raw key data that differ in ONE 32-bit word only (high word, low word) - keys as
    # jr.split / fold_in produce them; run without observers, once each
    raw = lambda hi, lo: jr.wrap_key_data(jnp.asarray([hi, lo], dtype=jnp.uint32))
    keyset = [jr.key(11), jr.key(23), raw(1, 7), raw(2, 7), raw(9, 1), raw(9, 2)]
    obs_sets = observer_sets(ctx)
    for ki, run_key in enumerate(keyset):
        for oi, (oname, mkobs) in enumerate(obs_sets if ki < 2 else obs_sets[:1]):
            for rep in range((2 if oi in (0, 2) else 1) if ki < 2 else 1):
                policy = mkpol(jr.key(5))
                before = b"".join(x.tobytes() for x in leaves(policy))
                trained = algo.learn(env, policy, total, key=run_key, callback=mkobs(total))
                jax.effects_barrier()
                after = b"".join(x.tobytes() for x in leaves(policy))
                lv = leaves(trained)
                h = b"".join(x.tobytes() for x in lv)
                runs.append(dict(key=ki + 1, obs=oi + 1, rep=rep + 1, bits=bits_ids.setdefault(h, len(bits_ids) + 1), cls=0,
                                 in_before=1, in_after=1 if before == after else 2, obs_name=oname))
                params.append(lv)
    # tolerance classes: greedy clustering with max-abs difference <= 1e-5
    reps = []
    gaps = []
    for i, lv in enumerate(params):
        for c, r in enumerate(reps):
            d = max(float(np.max(np.where(a == b, 0.0, np.abs(a.astype(np.float64) - b.astype(np.float64))))) if a.size else 0.0
                    for a, b in zip(lv, params[r]))
            if d <= 1e-5:
                runs[i]["cls"] = c + 1
                break
            gaps.append(d)
        else:
            reps.append(i)
            runs[i]["cls"] = len(reps)
    return {"runs": runs, "meta": {"alg": name, "total": total, "min_gap_between_classes": min(gaps) if gaps else None}}


def digest_of_run(name: str) -> str:
    """one tiny learn() of the named setup in THIS process; sha256 over all parameter leaves"""
    import hashlib
    import jax
    import jax.random as jr
    ctx = Ctx("C11", "thorough", 0)
    try:
        make = dict(setups(ctx))[name]
        algo, env, mkpol, total = make()
        trained = algo.learn(env, mkpol(jr.key(5)), total, key=jr.key(11), callback=None)
        jax.effects_barrier()
        return hashlib.sha256(b"".join(x.tobytes() for x in leaves(trained))).hexdigest()
    finally:
        ctx.cleanup()


def cross_process(ctx: Ctx, rep: Report):
    """"repeating it with the same inputs yields bit-identical parameters" also across interpreter processes: the same run in two
    fresh processes with different PYTHONHASHSEED values (anything derived from hash(), id(), the pid or the clock differs there)"""
    import os
    import subprocess
    import sys
    from concurrent.futures import ThreadPoolExecutor
    from pathlib import Path
    names = [n for n, _ in setups(ctx)][:ctx.pick(2, 5)]
    jobs = [(n, hs) for n in names for hs in ("101", "202")]

    def one(job):
        n, hs = job
        env = dict(os.environ, PYTHONHASHSEED=hs, JAX_PLATFORMS="cpu")
        p = subprocess.run([sys.executable, "-m", "lvf.props.c11", n], capture_output=True, text=True, env=env,
                           cwd=str(Path(__file__).resolve().parents[2]), timeout=1800)
        line = next((l for l in reversed(p.stdout.splitlines()) if l.startswith("DIGEST ")), None)
        if p.returncode != 0 or line is None:
            raise Machinery(f"C11 cross-process run of {n} failed: {(p.stderr or p.stdout)[-800:]}")
        return n, hs, line.split()[1]
    with ThreadPoolExecutor(max_workers=4) as ex:
        res = list(ex.map(one, jobs))
    cases = []
    for n in names:
        ds = sorted({d for (m, _, d) in res if m == n})
        cases.append({"atoms": {"SameInputsGiveBitIdenticalParametersInAnotherProcess": len(ds) == 1}, "alg": n, "digests": ds})
    v = tracecheck.validate(ctx, "trace/Trace_Atoms.tla", cases, "purity_xproc")
    rep.traces += len(cases)
    rep.evaluations += len(jobs)
    rep.parts["cross_process_reproducibility"] = {"algorithms": names, "processes_per_algorithm": 2, "accepted": len(v.accepted), "rejected": len(v.rejected)}
    for i, (l, clauses) in sorted(v.rejected.items()):
        rep.violations.append(Violation(f"C11:{cases[i]['alg']}:" + "+".join(clauses),
                                        f"{cases[i]['alg']}: the same learn() call in two interpreter processes (PYTHONHASHSEED 101 / 202) gives "
                                        f"different parameters: {cases[i]['digests']}", "xproc", {"alg": cases[i]["alg"]}))


def viol(v, traces, cases):
    out = []
    for i, (l, clauses) in sorted(v.rejected.items()):
        rs = [{k: r[k] for k in ("key", "obs_name", "rep", "bits", "cls", "in_after")} for r in traces[i]["runs"]]
        out.append(Violation(f"C11:{cases[i]['alg']}:" + "+".join(clauses),
                             f"{cases[i]['alg']} learn() family violates {clauses}: runs={rs}", "purity", cases[i]))
    return out


def run(ctx: Ctx) -> Report:
    rep = Report()
    res = tlc.run("mc/MC_Purity.tla", workdir=ctx.work, workers=8, timeout=900)
    tlc.require_ok(res, "MC_Purity")
    rep.add_tlc("MC_Purity", res)
    mut = tlc.run("mutants/Purity_leak.tla", workdir=ctx.work, workers=4, timeout=900)
    if mut.violated != "Agree":
        raise Machinery(f"vacuity guard: the leaking mutant of Purity.tla was not rejected ({mut.violated}, {mut.error})")
    rep.parts["mutant_Purity_leak"] = {"violated": mut.violated}
    cases = [{"alg": name} for name, _ in setups(ctx)]
    traces = [record_family(ctx, name, make) for name, make in setups(ctx)]
    v = tracecheck.validate(ctx, SPEC, traces, "purity")
    rep.states += v.distinct
    rep.transitions += v.generated
    rep.traces += len(traces)
    rep.evaluations += sum(len(t["runs"]) for t in traces)
    rep.parts["C2S_learn_families"] = {"families": [t["meta"] for t in traces], "runs": sum(len(t["runs"]) for t in traces),
                                       "accepted": len(v.accepted), "rejected": len(v.rejected)}
    rep.violations += viol(v, traces, cases)
    good = sorted(v.accepted)
    if good:
        m = copy.deepcopy(traces[good[0]])
        m["runs"][1]["cls"] = 99
        m2 = copy.deepcopy(traces[good[0]])
        m2["runs"][0]["in_after"] = 2
        vb = tracecheck.validate(ctx, SPEC, [m, m2], "purity_selftest")
        if len(vb.rejected) != 2:
            raise Machinery("C11 binding self-test failed")
    cross_process(ctx, rep)
    rep.samples.append({"kind": "learn() run family", "meta": traces[0]["meta"],
                        "runs": [{k: r[k] for k in ("key", "obs_name", "rep", "bits", "cls")} for r in traces[0]["runs"][:6]]})
    rep.undecided += ["determinism across devices (one CPU device here)",
                      "bit-identity across different observer sets (different XLA programs; compared with tolerance 1e-5)"]
    rep.assumptions += ["same program + same inputs must be bit-identical; runs with different observer sets are compared up to 1e-5 "
                        "(an interfering observer changes which actions are sampled and moves parameters by >= 1e-3 in these runs)"]
    return rep


def replay(ctx: Ctx, driver: str, case: dict) -> Report:
    rep = Report()
    if driver == "xproc":
        cross_process(ctx, rep)
        rep.violations = [v for v in rep.violations if v.case["alg"] == case["alg"]]
        return rep
    name, make = next((n, m) for n, m in setups(ctx) if n == case["alg"])
    tr = record_family(ctx, name, make)
    v = tracecheck.validate(ctx, SPEC, [tr], "replay")
    rep.violations += viol(v, [tr], [case])
    rep.traces = 1
    return rep


if __name__ == "__main__":
    import os
    import sys
    os.environ.setdefault("JAX_PLATFORMS", "cpu")
    print("DIGEST " + digest_of_run(sys.argv[1]))
