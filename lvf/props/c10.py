"""C10 - training schedule: step budget, iteration counter, target-network updates.

MC : spec/mc/MC_Schedule (Schedule.tla): all (total, E, S, K, pf, autotune, tau) within bounds x all iteration histories.
C2S: real DQN / SAC iteration histories (parameters interned: equal id <=> bit-identical), an exact Polyak instance through
     SAC.per_iteration, and learn(total_timesteps) observed through the real LoggingCallback -> Trace_Schedule."""
from __future__ import annotations

import copy

from .. import tlc, tracecheck
from ..core import Ctx, Machinery, Report, Violation

LEVEL = "model_checking"
SPEC = "trace/Trace_Schedule.tla"


def gen_cases(ctx: Ctx) -> list:
    rng = ctx.rng
    cases = []
    dq = [dict(E=1, S=1, K=2, ls=0), dict(E=1, S=2, K=3, ls=2), dict(E=2, S=1, K=1, ls=3), dict(E=1, S=1, K=4, ls=1),
          # steps per iteration sharing a factor with the interval: an interval counted in environment steps would show
          dict(E=1, S=2, K=4, ls=1), dict(E=2, S=2, K=6, ls=0)]
    sq = [dict(E=1, S=1, pf=2, auto=True, tn=2, ls=2), dict(E=1, S=1, pf=3, auto=False, tn=1, ls=2),
          dict(E=2, S=1, pf=1, auto=True, tn=4, ls=2)]
    if ctx.thorough:
        dq += [dict(E=rng.choice([1, 2, 3]), S=rng.choice([1, 2, 3]), K=rng.choice([1, 2, 3, 4, 5]), ls=rng.choice([0, 1, 4]))
               for _ in range(12)]
        sq += [dict(E=rng.choice([1, 2]), S=rng.choice([1, 2]), pf=rng.choice([1, 2, 3, 4]), auto=rng.random() < 0.5,
                    tn=rng.choice([1, 2, 4]), ls=2) for _ in range(8)]
    for c in dq:
        for rep in range(ctx.pick(2, 4)):
            cases.append({"kind": "dqn", "c": c, "n": 2 * c["K"] + 1 + rng.randint(0, 2), "seed": rng.randrange(2 ** 31)})
    for c in sq:
        for rep in range(ctx.pick(1, 3)):
            cases.append({"kind": "sac", "c": c, "n": 2 * c["pf"] + 2, "seed": rng.randrange(2 ** 31)})
    for (kind, c, total) in (("DQN", dict(E=2, S=2, K=2, ls=3), 21), ("DQN", dict(E=1, S=2, K=3, ls=2), 7),
                             ("PPO", dict(E=2, S=4), 30), ("PPO", dict(E=2, S=4), 7)) + \
            ((("PPO", dict(E=1, S=4), 16), ("DQN", dict(E=1, S=1, K=2, ls=0), 5)) if ctx.thorough else ()):
        cases.append({"kind": "learn", "alg": kind, "c": c, "total": total, "seed": rng.randrange(2 ** 31)})
    return cases


def record(case):
    from .. import drive_schedule as ds
    if case["kind"] == "dqn":
        return ds.record_dqn(case["c"], case["n"], case["seed"])
    if case["kind"] == "sac":
        return ds.record_sac(case["c"], case["n"], case["seed"])
    return ds.record_learn(case["alg"], case["c"], case["total"], case["seed"])


def viol(v, traces, cases):
    out = []
    for i, (l, clauses) in sorted(v.rejected.items()):
        ev = traces[i]["events"][l - 1]
        ev = {k: x for k, x in ev.items() if x not in (0, [], True) or k in ("iter", "ev")}
        out.append(Violation("C10:" + cases[i]["kind"] + ":" + "+".join(clauses),
                             f"{cases[i]['kind']} run {traces[i]['cfg']}: event {l} violates {clauses}: {ev}", "schedule", cases[i]))
    return out


def run(ctx: Ctx) -> Report:
    rep = Report()
    res = tlc.run("mc/MC_Schedule.tla", "mc/MC_Schedule.cfg" if ctx.thorough else "mc/MC_Schedule_quick.cfg",
                  workdir=ctx.work, workers=16, coverage=True, timeout=2400)
    tlc.require_ok(res, "MC_Schedule")
    rep.add_tlc("MC_Schedule", res)
    if res.distinct < 20000 or res.coverage.get("Iterate", (0, 0))[1] == 0:
        raise Machinery("MC_Schedule vacuity guard")
    cases = gen_cases(ctx)
    traces = [record(c) for c in cases]
    v = tracecheck.validate(ctx, SPEC, traces, "sched")
    rep.states += v.distinct
    rep.transitions += v.generated
    rep.traces += len(traces)
    rep.evaluations += sum(len(t["events"]) for t in traces)
    rep.parts["C2S_schedule"] = {"dqn_runs": sum(c["kind"] == "dqn" for c in cases), "sac_runs": sum(c["kind"] == "sac" for c in cases),
                                 "learn_runs": sum(c["kind"] == "learn" for c in cases),
                                 "iterations": sum(1 for t in traces for e in t["events"] if e["ev"] == "iter"),
                                 "accepted": len(v.accepted), "rejected": len(v.rejected)}
    rep.violations += viol(v, traces, cases)
    # binding self-test: a target that lags one update; an actor that moved off schedule; a missing record
    muts = []
    for i in sorted(v.accepted):
        t = traces[i]
        if cases[i]["kind"] == "dqn" and len(muts) == 0 and cases[i]["c"]["K"] >= 2:
            m = copy.deepcopy(t)
            k = cases[i]["c"]["K"]
            m["events"][k - 1]["tgt_id"] = m["events"][k - 2]["onl_id"]
            muts.append(m)
        if cases[i]["kind"] == "sac" and len(muts) == 1 and cases[i]["c"]["pf"] >= 2:
            m = copy.deepcopy(t)
            m["events"][1]["actor_id"] += 1000
            muts.append(m)
        if cases[i]["kind"] == "learn" and len(muts) == 2:
            m = copy.deepcopy(t)
            m["events"][0]["nrec"] += 1
            muts.append(m)
    if len(muts) != 3:
        raise Machinery(f"C10 self-test: could not build the three corrupted traces ({len(muts)})")
    vb = tracecheck.validate(ctx, SPEC, muts, "sched_selftest")
    if len(vb.rejected) != 3:
        raise Machinery(f"C10 binding self-test failed: {vb.accepted}")
    rep.parts["binding_self_test"] = {"corrupted_traces_rejected": 3}
    # composition (Training.tla): the callback protocol of learn() as seen by a flight recorder - iteration count, one on_step
    # per environment step (warm-up included), on_iteration after the counter increment, start / end exactly once
    from .. import drive_training as dtr
    res2 = tlc.run("mc/MC_Training.tla", workdir=ctx.work, workers=8, timeout=900)
    tlc.require_ok(res2, "MC_Training")
    rep.add_tlc("MC_Training", res2)
    pcases = [("PPO", 3, 0, 7, False), ("DQN", 2, 3, 5, True), ("DQN", 1, 0, 0, False), ("A2C", 2, 0, 6, True)] + \
        ([("PPO", 4, 0, 17, True), ("DQN", 3, 1, 10, False)] if ctx.thorough else [])
    ptr = [dtr.record_learn(k, S, ls, total, ctx.rng.randrange(2 ** 31), in_list=il) for (k, S, ls, total, il) in pcases]
    pv = tracecheck.validate(ctx, "trace/Trace_Training.tla", ptr, "protocol")
    rep.states += pv.distinct
    rep.transitions += pv.generated
    rep.traces += len(ptr)
    rep.parts["C2S_callback_protocol"] = {"learn_runs": len(ptr), "events": sum(len(t["events"]) for t in ptr),
                                          "accepted": len(pv.accepted), "rejected": len(pv.rejected)}
    for i, (l, clauses) in sorted(pv.rejected.items()):
        ev = ptr[i]["events"][l - 1] if 1 <= l <= len(ptr[i]["events"]) else None
        rep.violations.append(Violation("C10:protocol:" + "+".join(clauses),
                                        f"learn() of {ptr[i]['meta']} with cfg {ptr[i]['cfg']}: event {l} {ev} violates {clauses}; "
                                        f"events={[ (e['e'], e['k']) for e in ptr[i]['events']][:40]}", "protocol",
                                        {"kind": "protocol", "args": list(pcases[i])}))
    mbad = copy.deepcopy(ptr[0])
    del mbad["events"][4]
    if 0 not in tracecheck.validate(ctx, "trace/Trace_Training.tla", [mbad], "protocol_selftest").rejected:
        raise Machinery("C10 protocol self-test failed")
    rep.samples.append({"kind": "DQN iteration history", "cfg": traces[0]["cfg"], "init": traces[0]["init"],
                        "events": [{k: e[k] for k in ("iter", "pos", "onl_id", "tgt_id")} for e in traces[0]["events"][:5]]})
    rep.assumptions += ["'unchanged' / 'copied' claims are decided by bit-identity of all array leaves (interned digests)",
                        "Polyak: tolerance 1e-6 on real runs plus an exact integer-weight instance through SAC.per_iteration"]
    return rep


def replay(ctx: Ctx, driver: str, case: dict) -> Report:
    rep = Report()
    if case.get("kind") == "protocol":
        from .. import drive_training as dtr
        k, S, ls, total, il = case["args"]
        tr = dtr.record_learn(k, S, ls, total, 1, in_list=il)
        pv = tracecheck.validate(ctx, "trace/Trace_Training.tla", [tr], "replay")
        for i, (l, clauses) in pv.rejected.items():
            rep.violations.append(Violation("C10:protocol:" + "+".join(clauses), f"event {l}", "protocol", case))
        rep.traces = 1
        return rep
    tr = record(case)
    v = tracecheck.validate(ctx, SPEC, [tr], "replay")
    rep.traces = 1
    rep.violations += viol(v, [tr], [case])
    return rep
