"""C04 - an on-policy rollout is a faithful record of the interaction.

MC : spec/mc/MC_OnPolicy (OnPolicy.tla over MDP.tla and GAE.tla).
C2S: real algo.reset + algo.iteration (PPO / A2C / REINFORCE; 1..3 environments) on TableEnv under real
     wrapper stacks with a tabular actor-critic policy -> spec/trace/Trace_OnPolicy (one trace per stream)."""
from __future__ import annotations

from .. import onpolicy_suite as ops
from ..core import Ctx, Report

LEVEL = "model_checking"


def NOT_STATS(c: str) -> bool:
    """the logging-statistics clauses of the collector traces belong to C19"""
    return not c.startswith("Stats")


def run(ctx: Ctx) -> Report:
    rep = Report()
    ops.run_mc(ctx, rep)
    ops.run_c2s(ctx, rep, "C04", ctx.pick(12, 60), ctx.pick(40, 150), only=NOT_STATS)
    ops.state_cover(ctx, rep, "C04", only=NOT_STATS)
    try:
        from . import real_policy
        rep.merge(real_policy.run_c04(ctx))
    except ImportError:
        rep.notes.append("production-policy ratio-one traces: driver not present")
    rep.assumptions += ["TableEnv / TableACPolicy stand-ins use only lerax's public extension points",
                        "the rollout buffer is observed through an overridden `train` and a harness callback"]
    return rep


def replay(ctx: Ctx, driver: str, case: dict) -> Report:
    if driver in ("onpolicy", "onpolicy_cover"):
        return ops.replay(ctx, "C04", case, only=NOT_STATS)
    from . import real_policy
    return real_policy.replay(ctx, driver, case)
