"""C12 - JAX transformations are transparent; parallel environments never mix.

(b) no mixing - decided with the collector specifications: every environment stream of a vmapped collection (real
    algo.iteration with num_envs in {2, 3}; PPO/A2C/REINFORCE and DQN/SAC) must be accepted by the *single-environment*
    trace specification started in that stream's own carried state, including its own GAE, its own replay ring and its own
    logging statistics: a row, flag, policy state, advantage or ring entry that crossed streams is unexplainable there.
(a) transparency of environment functions under eager / jit / vmap is numeric: atoms 'Modes*' in the built-in environment
    traces (transition, observation, reward, terminal on recorded states; tolerance 1e-5, flags exact)."""
from __future__ import annotations

from .. import offpolicy_suite as ofs
from .. import onpolicy_suite as ops
from .. import tables as tb
from ..core import Ctx, Machinery, Report
from . import builtin_env as be

LEVEL = "model_checking"


def is_modes(c: str) -> bool:
    return c.startswith("Modes")


def key_independence(ctx: Ctx, rep: Report, only: str | None = None):
    """"... from the same per-environment keys": the N streams of one vmapped collection must draw from N different keys.  A
    stream that is a valid single-environment behaviour but a *copy* of its neighbour (one key broadcast to all environments)
    is accepted by the single-environment trace specification, so this is checked separately: a finite MDP with three
    equiprobable initial states under TimeLimit(1) redraws its state at every step; two streams of 12 such draws coincide
    with probability 3^-12 when their keys differ."""
    import random
    from .. import drive_offpolicy as dof
    from .. import drive_onpolicy as dop
    from .. import tracecheck
    from ..core import Violation
    rng = random.Random(90210 + ctx.seed)
    cache = tb.EnvCache()
    cases, meta = [], []
    for algo in ("PPO", "A2C", "DQN", "SAC"):
        if only not in (None, algo):
            continue
        base = tb.gen_mdp(rng, "box" if algo == "SAC" else "disc", "disc", nS=4)
        base["Init"] = [1, 2, 3]
        base["Obs"] = [0, 1, 2, 3, 5]
        cfg = tb.gen_ac_policy(rng, tb.with_stack(base, [tb.wrec("TimeLimit", n=1)]))
        seed = rng.randrange(2 ** 31)
        segs = {}
        if algo in ("PPO", "A2C"):
            cfg.update(g2=1, l2=1, H=12, an=2)
            for tr in dop.record_onpolicy(cache, cfg, algo, 3, 2, seed):
                segs.setdefault(("iteration", tr["meta"]["iter"]), {})[tr["meta"]["env"]] = [r["obs"] for r in tr["rows"]]
        else:
            cfg.update(bufsize=120, lstarts=12, nsteps=12, N=3, an=2)
            for tr in dof.record_offpolicy(cache, cfg, algo, 1, seed):
                k, cur = 0, []
                for ev in tr["events"]:
                    if ev["ev"] == "snap":
                        segs.setdefault(("warm-up" if k == 0 else "iteration", k), {})[tr["meta"]["env"]] = cur
                        k, cur = k + 1, []
                    else:
                        cur.append(ev["obs"])
        atoms = {}
        for (phase, k), by_env in sorted(segs.items()):
            seqs = [tuple(v) for _, v in sorted(by_env.items())]
            name = "WarmUpStreamsOfParallelEnvironmentsAreNotCopies" if phase == "warm-up" else "RolloutStreamsOfParallelEnvironmentsAreNotCopies"
            ok = len(seqs) == 3 and all(len(q) >= 10 for q in seqs) and len(set(seqs)) == 3
            atoms[name] = atoms.get(name, True) and ok
        cases.append({"atoms": atoms})
        meta.append({"algo": algo, "seed": seed, "segments": {f"{p}{k}": {str(e): v for e, v in b.items()} for (p, k), b in segs.items()}})
    v = tracecheck.validate(ctx, "trace/Trace_Atoms.tla", cases, "c12_keys")
    rep.traces += len(cases)
    rep.parts["key_independence_of_parallel_streams"] = {"runs": [m["algo"] for m in meta], "accepted": len(v.accepted), "rejected": len(v.rejected)}
    for i, (l, clauses) in sorted(v.rejected.items()):
        rep.violations.append(Violation(f"C12:{meta[i]['algo']}:" + "+".join(clauses),
                                        f"{meta[i]['algo']} with num_envs = 3: environment streams are copies of each other ({clauses}): "
                                        f"{ {k: x for k, x in list(meta[i]['segments'].items())[:2]} }", "keys", {"algo": meta[i]["algo"]}))


def run(ctx: Ctx) -> Report:
    rep = Report()
    ops.run_mc(ctx, rep)
    key_independence(ctx, rep)
    # (b) on-policy, N in {2, 3}
    templates = [t for t in ops.gen_templates(ctx, ctx.pick(12, 60)) if t["N"] > 1]
    traces, cases = ops.record(ctx, templates, ctx.pick(30, 100))
    from .. import tracecheck
    v = tracecheck.validate(ctx, ops.TRACE_SPEC, traces, "c12_onp", procs=ctx.pick(4, 12))
    rep.states += v.distinct
    rep.transitions += v.generated
    rep.traces += len(traces)
    rep.evaluations += sum(len(t["rows"]) for t in traces)
    rep.parts["C2S_streams_of_vmapped_onpolicy_collection"] = {"streams": len(traces), "accepted": len(v.accepted), "rejected": len(v.rejected),
                                                               "num_envs": sorted({t["meta"]["N"] for t in traces})}
    rep.violations += ops.violations_from("C12", v, traces, cases)
    if not traces or min(t["meta"]["N"] for t in traces) < 2:
        raise Machinery("C12: no vmapped on-policy collection recorded")
    # (b) off-policy
    ot = [t for t in ofs.gen_templates(ctx, ctx.pick(9, 45)) if t["N"] > 1]
    otr, ocases = ofs.record(ctx, ot, ctx.pick(20, 80))
    ov = tracecheck.validate(ctx, ofs.TRACE_SPEC, otr, "c12_offp", procs=ctx.pick(4, 12))
    rep.states += ov.distinct
    rep.transitions += ov.generated
    rep.traces += len(otr)
    rep.parts["C2S_streams_of_vmapped_offpolicy_collection"] = {"streams": len(otr), "accepted": len(ov.accepted), "rejected": len(ov.rejected)}
    rep.violations += ofs.violations_from("C12", ov, otr, ocases)
    rep.samples.append({"kind": "one stream of a vmapped rollout validated as a single-environment trace", "meta": traces[0]["meta"],
                        "init": traces[0]["init"], "rows": traces[0]["rows"][:2]})
    # (a)
    rep.merge(be.run_traces(ctx, "C12", is_modes, families=("classic",) if not ctx.thorough else ("classic", "mujoco"), modes_every=6))
    rep.undecided += ["eager = jit = vmap for float functions is decided up to tolerance on recorded states only (atoms)"]
    rep.assumptions += ["all environments of a vmapped run share one MDP: a leaked row is recognised as unexplainable in the receiving "
                        "stream (wrong predecessor observation / counter phase / policy-state counter); thousands of streams make a "
                        "systematic leak certain to surface"]
    return rep


def replay(ctx: Ctx, driver: str, case: dict) -> Report:
    if driver == "keys":
        rep = Report()
        key_independence(ctx, rep, only=case["algo"])
        return rep
    if driver == "onpolicy":
        return ops.replay(ctx, "C12", case)
    if driver == "offpolicy":
        return ofs.replay(ctx, "C12", case)
    return be.replay(ctx, driver, case, pid="C12", only=is_modes)
