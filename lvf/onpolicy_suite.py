"""Shared by C03 / C04 / C12 / C19: model checking of OnPolicy.tla and recording + validation of real
on-policy rollouts (PPO / A2C / REINFORCE, 1..3 parallel environments)."""
from __future__ import annotations

import copy
import json
import random

from . import tables as tb
from . import tlc, tracecheck
from .core import Ctx, Machinery, Report, Violation

TRACE_SPEC = "trace/Trace_OnPolicy.tla"


def mc_cfgs(ctx: Ctx) -> list:
    rng = random.Random(4242)
    cfgs = []
    n = ctx.pick(24, 120)
    for i in range(n):
        ak = "box" if i % 3 == 0 else "disc"
        base = tb.gen_mdp(rng, ak, rng.choice(["disc", "box"]), mask=(i % 4 == 1), nS=rng.randint(2, 3))
        if i % 5 == 0:
            # termination and truncation coincide: the terminal state is entered exactly at the limit
            base["Term"] = [False] * base["nS"] + [False]
            base["Term"][base["nS"] - 1] = True
            base["Init"] = [1]
            for k in range(base["nA"]):
                base["T"][0][k] = base["nS"]
            stack = [tb.wrec("TimeLimit", n=1)]
        else:
            stack = tb.gen_stack(rng, base, rng.randint(0, 2), force_tl=0.5)
        c = tb.gen_ac_policy(rng, tb.with_stack(base, stack), K=2)
        c.update(g2=rng.choice([1, 2, 0]), l2=rng.choice([1, 2, 0]), H=rng.choice([2, 3, 3]), an=2)
        cfgs.append(c)
    return cfgs


def run_mc(ctx: Ctx, rep: Report):
    cfgs = mc_cfgs(ctx)
    f = ctx.work / "mc_onpolicy_cfgs.json"
    f.write_text(json.dumps(cfgs))
    res = tlc.run("mc/MC_OnPolicy.tla", workdir=ctx.work, workers=ctx.pick(8, 16), env={"CFG_FILE": str(f)},
                  coverage=True, timeout=2400)
    tlc.require_ok(res, "MC_OnPolicy (the specification's own properties)")
    rep.add_tlc("MC_OnPolicy", res, configurations=len(cfgs))
    if res.distinct < 20 * len(cfgs):
        raise Machinery(f"MC_OnPolicy explored only {res.distinct} distinct states: vacuity guard")
    for act in ("DoCollect", "PostCollect"):
        if res.coverage.get(act, (0, 0))[1] == 0:
            raise Machinery(f"MC_OnPolicy: action {act} never taken ({sorted(res.coverage)})")


def state_cover(ctx: Ctx, rep: Report, pid: str, only=None):
    """spec -> code: TLC enumerates every carried state (wrapped environment state, policy state) the bounded OnPolicy model can
    reach; the real collector is placed in each of them (eqx.tree_at on a reset state) and runs one real iteration of length 1 for
    several keys; every resulting row + post_collect is judged by Trace_OnPolicy.  Random rollouts visit these states with very
    different frequencies; here each one is exercised."""
    import equinox as eqx
    import jax
    import jax.numpy as jnp
    import jax.random as jr
    from . import drive_onpolicy as dop
    cfgs = mc_cfgs(ctx)
    for i, c in enumerate(cfgs):
        c["id"] = i + 1
    f = ctx.work / "mc_onpolicy_cover_cfgs.json"
    f.write_text(json.dumps(cfgs))
    res = tlc.run("mc/MC_OnPolicy.tla", "mc/MC_OnPolicy_cover.cfg", workdir=ctx.work, workers=1, env={"CFG_FILE": str(f)}, timeout=2400)
    tlc.require_ok(res, "MC_OnPolicy_cover")
    rep.add_tlc("MC_OnPolicy_cover", res, configurations=len(cfgs))
    reach = {}
    for cid, s_, cnt, ps in res.printed("ST"):
        reach.setdefault(int(cid), set()).add((int(s_), tuple(int(x) for x in cnt), int(ps)))
    if len(reach) != len(cfgs):
        raise Machinery(f"on-policy state cover: TLC reported states for {len(reach)} of {len(cfgs)} configurations")
    cache = tb.EnvCache()
    traces, cases = [], []
    keys_per_state = ctx.pick(4, 6)
    for c in cfgs:
        c1 = dict(c, H=1)
        env = cache.get(c1)
        policy = tb.TableACPolicy(env, c1)
        algo = dop.with_hparams(dop.make_algo("PPO", 1, 1), c1["g2"], c1["l2"])
        logcb, backend = dop.logging_callback(c1.get("an", 2))
        from lerax.callback import CallbackList
        cb = CallbackList([dop.Recorder(), logcb])
        base = dop._reset(algo, env, policy, jr.key(0), cb)
        for (s_, cnt, ps) in sorted(reach[c["id"]]):
            est = tb.make_state(env, c1, s_, list(cnt))
            st0 = eqx.tree_at(lambda x: (x.step_state.env_state, x.step_state.policy_state.n), base, (est, jnp.asarray(ps, dtype=jnp.int32)))
            for kk in range(keys_per_state):
                seed = ctx.rng.randrange(2 ** 31)
                trs = dop.record_from_state(c1, env, algo, st0, cb, backend, seed)
                traces += trs
                cases += [{"cfg": c1, "placed": [s_, list(cnt), ps], "seed": seed}] * len(trs)
    v = tracecheck.validate(ctx, TRACE_SPEC, traces, "onp_cover", procs=ctx.pick(4, 12))
    rep.states += v.distinct
    rep.transitions += v.generated
    rep.traces += len(traces)
    rep.evaluations += len(traces)
    rep.parts["S2C_onpolicy_state_cover"] = {"configurations": len(cfgs), "reachable_carried_states": sum(len(x) for x in reach.values()),
                                            "real_steps": len(traces), "accepted": len(v.accepted), "rejected": len(v.rejected)}
    for vi in violations_from(pid, v, traces, [dict(c, algo="PPO", N=1, iters=1, env=0, iter=0) for c in cases], only):
        vi.driver = "onpolicy_cover"
        rep.violations.append(vi)
    if len(traces) < 3 * len(cfgs):
        raise Machinery("on-policy state cover: too few real steps (vacuity guard)")


def gen_templates(ctx: Ctx, n: int) -> list:
    rng = ctx.rng
    out = []
    combos = [("disc", "disc"), ("box", "disc"), ("disc", "box"), ("box", "box"), ("box", "disc")]
    for i in range(n):
        ak, ok = combos[i % len(combos)]
        base = tb.gen_mdp(rng, ak, ok, mask=(ak == "disc" and i % 2 == 0))
        depth = rng.choice([0, 1, 1, 2, 2, 3])
        stack = tb.gen_stack(rng, base, depth, force_tl=0.45)
        out.append({"cfg": tb.with_stack(base, stack), "H": rng.choice([4, 5, 6, 8]), "N": [1, 2, 3][i % 3],
                    "algo": ["PPO", "A2C", "REINFORCE", "PPO"][i % 4]})
    return out


def record(ctx: Ctx, templates: list, per_template: int, iters: int = 2, cache=None) -> tuple[list, list]:
    from . import drive_onpolicy as dop
    cache = cache or tb.EnvCache()
    traces, cases = [], []
    for t in templates:
        for j in range(per_template):
            cfg = t["cfg"] if j == 0 else tb.vary(ctx.rng, t["cfg"])
            if ctx.rng.random() < 0.25:
                force_coincidence(ctx.rng, cfg)
            cfg = tb.gen_ac_policy(ctx.rng, cfg)
            cfg.update(g2=ctx.rng.choice([1, 1, 2, 0]), l2=2 if t["algo"] == "REINFORCE" else ctx.rng.choice([1, 2, 0]),
                       H=t["H"], an=ctx.rng.choice([1, 2, 3, 4]))
            seed = ctx.rng.randrange(2 ** 31)
            if j % 8 == 0:
                from .core import relieve_jit
                relieve_jit()
            trs = dop.record_onpolicy(cache, cfg, t["algo"], t["N"], iters, seed)
            for tr in trs:
                if tr["meta"]["dones_so_far"] > tb.exact_dones_limit(tr["meta"].get("big_reward_so_far", False)):
                    continue        # more than 8 episode ends: the EMA leaves the exact fixed-point range (SD = 4^8)
                traces.append(tr)
                cases.append({"cfg": cfg, "algo": t["algo"], "N": t["N"], "iters": iters, "seed": seed,
                              "env": tr["meta"]["env"], "iter": tr["meta"]["iter"]})
    return traces, cases


def force_coincidence(rng, cfg):
    """make 'terminates on the very step that hits the time limit' likely: a terminal state n steps from Init"""
    tls = [w for w in cfg["stack"] if w["kind"] == "TimeLimit"]
    if not tls:
        return
    nS = cfg["nS"]
    cfg["Term"] = [False] * (nS + 1)
    cfg["Term"][nS - 1] = True
    n = min(w["n"] for w in tls)
    chain = list(range(1, nS + 1))
    # states 1 -> 2 -> .. -> nS along every action; adjust the limit to the chain length
    for s in range(nS - 1):
        for k in range(cfg["nA"]):
            cfg["T"][s][k] = s + 2
    cfg["Init"] = [1]
    for w in tls:
        w["n"] = max(1, nS - 1)


def key_of(clauses) -> str:
    return "onpolicy:" + "+".join(clauses)


def violations_from(pid: str, v: tracecheck.TraceVerdicts, traces, cases, only=None) -> list:
    out = []
    for i, (l, clauses) in sorted(v.rejected.items()):
        if only is not None:
            clauses = [c for c in clauses if only(c)]
            if not clauses:
                continue
        tr = traces[i]
        row = tr["rows"][l - 1] if 1 <= l <= len(tr["rows"]) else {"final": tr["final"]}
        stack = [w["kind"] for w in tr["cfg"]["stack"]]
        out.append(Violation(f"{pid}:" + key_of(clauses),
                             f"{tr['meta']['algo']} rollout (N={tr['meta']['N']}, env {tr['meta']['env']}), row {l}: "
                             f"not a behaviour of OnPolicy: failing clauses {clauses}; stack={stack} row={row}",
                             "onpolicy", cases[i]))
    return out


def self_test(ctx: Ctx, traces, verdicts) -> int:
    good = [i for i in sorted(verdicts.accepted)]
    if not good:
        raise Machinery("on-policy self-test: no accepted trace to corrupt")
    muts = []
    for n, (field, f) in enumerate((("rew", lambda x: x + 1), ("done", lambda x: not x), ("logp", lambda x: x - 1),
                                    ("val", lambda x: x + 1), ("pstate", lambda x: x + 1), ("adv", None), ("stats", None))):
        t = copy.deepcopy(traces[good[n % len(good)]])
        if field == "adv":
            t["final"]["adv"][0] += 1
        elif field == "stats":
            t["final"]["stats"]["ret"] += 1
        else:
            r = t["rows"][len(t["rows"]) // 2]
            r[field] = f(r[field])
        muts.append(t)
    v = tracecheck.validate(ctx, TRACE_SPEC, muts, "selftest_onp")
    if len(v.rejected) != len(muts):
        raise Machinery(f"on-policy binding self-test failed: corrupted traces accepted: {sorted(v.accepted)}")
    return len(muts)


def run_c2s(ctx: Ctx, rep: Report, pid: str, n_templates: int, per_template: int, only=None):
    templates = gen_templates(ctx, n_templates)
    traces, cases = record(ctx, templates, per_template)
    v = tracecheck.validate(ctx, TRACE_SPEC, traces, "onp", procs=ctx.pick(4, 12))
    rep.states += v.distinct
    rep.transitions += v.generated
    rep.traces += len(traces)
    rep.evaluations += sum(len(t["rows"]) for t in traces)
    multi = sum(1 for t in traces if t["meta"]["N"] > 1)
    rep.parts["C2S_onpolicy_collector"] = {
        "traces": len(traces), "streams_from_vmapped_collection": multi, "templates": len(templates),
        "accepted": len(v.accepted), "rejected": len(v.rejected), "tlc_states": v.distinct, "tlc_wall_s": round(v.wall, 1),
        "rows": sum(len(t["rows"]) for t in traces),
        "rows_done": sum(1 for t in traces for r in t["rows"] if r["done"]),
        "algos": sorted({t["meta"]["algo"] for t in traces})}
    rep.violations += violations_from(pid, v, traces, cases, only)
    rep.parts["binding_self_test_onpolicy"] = {"corrupted_traces_rejected": self_test(ctx, traces, v)}
    t0 = traces[0]
    rep.samples.append({"kind": "on-policy rollout stream (real collector on TableEnv/TableACPolicy)",
                        "algo": t0["meta"], "stack": [w["kind"] for w in t0["cfg"]["stack"]],
                        "init": t0["init"], "rows": t0["rows"][:3], "final": t0["final"]})
    return traces, cases, v


def replay(ctx: Ctx, pid: str, case: dict, only=None) -> Report:
    from . import drive_onpolicy as dop
    rep = Report()
    if "placed" in case:
        import equinox as eqx
        import jax.numpy as jnp
        import jax.random as jr
        from lerax.callback import CallbackList
        c1 = case["cfg"]
        env = tb.EnvCache().get(c1)
        algo = dop.with_hparams(dop.make_algo("PPO", 1, 1), c1["g2"], c1["l2"])
        logcb, backend = dop.logging_callback(c1.get("an", 2))
        cb = CallbackList([dop.Recorder(), logcb])
        base = dop._reset(algo, env, tb.TableACPolicy(env, c1), jr.key(0), cb)
        s_, cnt, ps = case["placed"]
        st0 = eqx.tree_at(lambda x: (x.step_state.env_state, x.step_state.policy_state.n), base,
                          (tb.make_state(env, c1, s_, cnt), jnp.asarray(ps, dtype=jnp.int32)))
        trs = dop.record_from_state(c1, env, algo, st0, cb, backend, case["seed"])
        v = tracecheck.validate(ctx, TRACE_SPEC, trs, "replay")
        rep.traces = len(trs)
        rep.violations += violations_from(pid, v, trs, [case] * len(trs), only)
        return rep
    trs = dop.record_onpolicy(tb.EnvCache(), case["cfg"], case["algo"], case["N"], case["iters"], case["seed"])
    trs = [t for t in trs if t["meta"]["env"] == case["env"] and t["meta"]["iter"] == case["iter"]]
    v = tracecheck.validate(ctx, TRACE_SPEC, trs, "replay")
    rep.traces = len(trs)
    rep.violations += violations_from(pid, v, trs, [case] * len(trs), only)
    return rep
