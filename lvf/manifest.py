"""Generates /verif/MANIFEST.json from the per-property registry below (python -m lvf.manifest)."""
from __future__ import annotations

import json
from pathlib import Path

VERIF = Path(__file__).resolve().parent.parent
PY = "/venv/bin/python"

# property -> (technique, level text, level note, design ref)
CHECKS = {
    "C01": ("TLA+ EnvAPI/MDP spec: TLC exhaustive + trace validation of real env.reset/step (C2S) + edge cover of the model graph on the real objects (S2C)",
            "TLC checks EnvAPI.tla (reset/step machine over wrapped finite MDPs) exhaustively on small configurations; "
            "thousands of traces recorded from the real env.reset/env.step on table MDPs under real wrapper stacks, and "
            "from the built-in environments with opaque dynamics, are validated event by event against the specification; "
            "every action of every reachable state of the bounded model is executed on the real wrapper stack and judged by TLC.",
            "TableEnv stand-in and projection in lvf/tables.py; dyadic values so float32 is exact; built-in environments: "
            "value relations up to tolerance (atoms).",
            "DESIGN.md section 4 C01"),
    "C03": ("TLA+ GAE spec: TLC exhaustive case enumeration + real compute_returns_and_advantages validated case by case",
            "TLC proves on the complete bounded case space that the implementation-shaped reverse masked scan equals the "
            "declarative GAE definition (and lambda=1 / lambda=0 / cut-at-done corollaries); the same space is fed to the real "
            "RolloutBuffer.compute_returns_and_advantages (single and vmapped stacked streams) and every result is checked by TLC "
            "against the specification; advantages of real PPO/A2C/REINFORCE rollouts are validated as part of collector traces.",
            "exact on a dyadic grid (float32 exact); arbitrary reals not decided (GAE is multilinear for fixed masks).",
            "DESIGN.md section 4 C03"),
    "C04": ("TLA+ OnPolicy collector spec: TLC exhaustive + trace validation of real PPO/A2C/REINFORCE rollouts (C2S) + state cover of the model on the real collector (S2C)",
            "TLC checks OnPolicy.tla (per-step collector over wrapped finite MDPs, tabular policy, post_collect GAE) against the "
            "declarative sentences of C04 on small configurations; every row of thousands of real rollouts (algo.reset + "
            "algo.iteration, 1..3 environments, discrete/masked/box actions, wrapper stacks) is validated clause by clause; the real "
            "collector is also placed in every carried state the bounded model reaches and stepped once per key; rollouts with the "
            "production MLP policy and with a stateful, masked policy (law and value depend on the carried state) are re-evaluated row "
            "by row (ratio inside PPO.ppo_loss itself = 1, stored reward = env reward + gamma V(successor) on truncation only).",
            "TableEnv / TableACPolicy stand-ins built on public extension points; production and stateful policies covered by atoms.",
            "DESIGN.md section 4 C04"),
    "C06": ("TLA+ ReplayRing spec: TLC exhaustive over insertion histories + trace validation of real ReplayBuffer.add/sample",
            "TLC checks ReplayRing.tla (position % size ring, env-major joint sampling over stacked rings) against the declarative "
            "recency / intactness / stored-only sentences for all capacities and insertion histories within bounds; add and sample "
            "calls of the real ReplayBuffer (pytree observations, policy states, stacked rings with unequal fill levels, vmapped "
            "adds) are validated slot by slot and row by row; a ring of 2^23 slots with 2^20 rows written is sampled with batches that "
            "exhaust the stored rows (stored-only at the other end of the scale); Apalache discharges the ring invariant for every "
            "number of insertions.",
            "rows carry a unique tag in every leaf; sampling outcomes are validated by membership, never by value.",
            "DESIGN.md section 4 C06"),
    "C05": ("TLA+ OffPolicy collector spec: TLC exhaustive + trace validation of real DQN/SAC collection (C2S)",
            "TLC checks OffPolicy.tla (per-step collector, warm-up, per-stream replay ring) against the declarative sentences of C05 "
            "on small configurations; every stored row and every ring position of real DQN/SAC runs (reset + iterations, 1..3 "
            "environments, wrapper stacks, box policies leaving the bounds, one-sided declared action boxes) is validated clause by "
            "clause per environment stream; warm-ups longer than the whole buffer are judged by their counters.",
            "training is stubbed through the public dqn_train/sac_train hooks; ring mechanics are C06.",
            "DESIGN.md section 4 C05"),
    "C19": ("TLA+ EpisodeStats/Eval specs: TLC exhaustive + trace validation of the real LoggingCallback, backend records and average_reward",
            "TLC proves the latch-based accumulator equal to the declarative per-episode sums/EMA for all reward/done histories "
            "within bounds (per environment); the real LoggingCallback's statistics are validated inside PPO/A2C/REINFORCE/DQN/SAC "
            "collector traces against the environment's own rewards, the records reaching BOTH backends of a two-backend callback are "
            "validated per iteration, every behaviour of the bounded statistics model is executed on the real step-state update, "
            "and average_reward is validated on deterministic table MDPs against the first-done-or-cap episode return.",
            "exact fixed point up to 8 episode ends per trace; evaluation helper decided for deterministic tabular policies.",
            "DESIGN.md section 4 C19"),
    "C13": ("TLA+ Wrappers/MDP/EnvAPI specs: TLC exhaustive per-wrapper refinement + component and trajectory trace validation",
            "TLC checks for every stack that one step of the wrapped machine is one step of the machine without its outermost "
            "wrapper under the declared maps, TimeLimit exactness and exact bound rescaling; every documented wrapper is "
            "constructed; functional components of real stacks are probed in arbitrary wrapped states; TimeLimit(N) is run along "
            "enumerated episode histories; the Gymnasium / Gymnax adapters (both directions, and the Gym adapter under the real "
            "PPO collector) are validated against the adapted environment's specification.",
            "built-in environments under wrappers are covered by C01/C02 traces; Rescale over unbounded boxes is out of scope.",
            "DESIGN.md section 4 C13"),
    "C10": ("TLA+ Schedule spec: TLC exhaustive over hyper-parameters and iteration histories + trace validation of real DQN/SAC/learn runs",
            "TLC checks Schedule.tla (iteration budget, post-increment DQN target copy, pre-increment SAC actor/temperature gate, one "
            "Polyak step per iteration) against the declarative sentences for all settings within bounds; iteration histories of real "
            "DQN and SAC runs (interned parameter digests, ring positions), an exact Polyak instance and learn() record sequences are "
            "validated against it.",
            "parameter identity by bit-identical digests; Polyak on real runs up to 1e-6 plus an exact integer instance.",
            "DESIGN.md section 4 C10"),
    "C09": ("TLA+ Minibatch spec: TLC exhaustive over shapes and permutations + trace validation of real buffer utilities and PPO.train",
            "TLC checks Minibatch.tla (shuffle, trim to floor(N/B)*B, reshape, consume) against the declarative partition sentences "
            "for all shapes and all permutations within bounds; the real flatten_axes / batch_indices / gather / batches / sample on "
            "pytree-structured rollouts (every leaf tagged) and visit counts decoded from the real PPO.train are validated against it.",
            "fresh shuffle per epoch decided existentially over runs; visit counts decoded through SGD(1) value entries.",
            "DESIGN.md section 4 C09"),
    "C14": ("TLA+ Spaces term model: TLC checks its laws on the case universe; every real contains/sample/canonical/flatten/==/hash/Gym round-trip case validated by TLC",
            "Spaces.tla defines membership, flat size, flattening and equality of space terms from the property text; TLC checks "
            "the model's own laws on the generated universe (nested Dict/Tuple, infinite bounds, boundary / malformed candidates) "
            "and judges every answer of the real space classes case by case (dictionary values as mappings: members re-keyed in "
            "another order must flatten to the same vector, in the space's key order).",
            "probes restricted to inputs whose verdict the property text fixes; continuous samples are abstracted soundly for membership.",
            "DESIGN.md section 4 C14"),
    "C15": ("TLA+ DiscreteLaws spec (exact rationals): TLC exhaustive + every real discrete-law case judged by TLC; continuous laws as atoms",
            "DiscreteLaws.tla defines categorical / Bernoulli / product laws and masking in exact rational arithmetic; TLC checks "
            "total mass, proportional renormalisation and mode on all small weight vectors and masks, and judges the probabilities, "
            "modes, samples and product structure of the real Categorical / Bernoulli / MultiCategorical classes case by case. "
            "Continuous laws (Normal, diagonal normal, squashed variants) contribute harness-evaluated identities only; parameters with a "
            "leading batch dimension must act row-wise in every method; masked laws must not depend on forbidden preferences "
            "(forbidden logits 120 nats above the allowed ones).",
            "Statistical clauses (total mass of densities by quadrature incl. the squashing Jacobian, goodness of fit of samples incl. "
            "joint frequencies of product laws, entropy = -E[log p]) are harness-evaluated atoms with fixed keys and 6-sigma bounds: "
            "decided up to those tolerances on the sampled parameterisations (no state-machine content).",
            "DESIGN.md section 4 C15, section 5"),
    "C16": ("TLA+ DiscreteLaws spec: TLC exhaustive over weights x masks + real masked distributions and production policies judged by TLC",
            "TLC checks on all weight vectors (n <= 4) and all non-empty masks that masking zeroes masked actions, renormalises "
            "proportionally and keeps the mode allowed; real Categorical/Bernoulli/MultiCategorical.mask and the production MLP "
            "actor-critic (discrete, multi-discrete, multi-binary) and Q policies (epsilon 0, 0.3, 1; with and without key) are "
            "exercised under every non-empty mask - also with the forbidden actions preferred by 120 nats / 1e4 value units before "
            "masking - and judged against it; the SAC policy's key-less action is the mode of its sampled law within the bounds.",
            "'departs from greedy with probability at most epsilon' for 0 < epsilon < 1 is statistical: only support and the extremes are decided.",
            "DESIGN.md section 4 C16"),
    "C07": ("TLA+ Losses spec (exact integer arithmetic): TLC exhaustive on flag/table cases + real dqn_loss/sac_train cases judged by TLC",
            "Losses.tla states the TD targets declaratively (r + gamma (1 - terminated) V') and in implementation shape; TLC proves "
            "them equal on all flag combinations and checks the Double-DQN structure; the real DQN.dqn_loss / dqn_loss_grad (loss and "
            "the whole gradient table = semi-gradient of the online network only) and the real SAC.sac_train (q_loss value, actor "
            "gating, critic independence, untouched targets; temperature 1 and 2) are evaluated on tabular / constant networks and "
            "judged case by case; a DQN object configured with a non-default discount runs its real dqn_train against that loss.",
            "tabular / constant networks; exact on dyadic inputs (tolerance 2e-5); arbitrary real parameters not decided.",
            "DESIGN.md section 4 C07"),
    "C08": ("TLA+ Losses spec (exact integer arithmetic): TLC exhaustive on ratio/advantage cases + real ppo/a2c/reinforce losses judged by TLC",
            "Losses.tla states the published objectives (PPO clipped surrogate with PPO2 value clipping, A2C, REINFORCE); TLC checks "
            "the zero-gradient-outside-clip and on-policy identities exhaustively; the real static loss functions and their gradients "
            "are evaluated on tabular policies for every (ratio, advantage) combination, flags and coefficients and judged "
            "component by component; PPO.train_batch decides the optimiser / global-norm-clipping clause; learners CONFIGURED with "
            "non-default coefficients run their real train against the static loss with those settings; buffers filled by the real "
            "collectors with a stateful masked policy give the on-policy identities end to end (approx KL 0, ratio 1).",
            "ratios realised through exp(ln r): tolerance 2e-5; off-policy approx_kl value and irrational std not decided.",
            "DESIGN.md section 4 C08"),
    "C18": ("TLA+ Checkpoint spec: TLC exhaustive over save/load histories + TLC-generated behaviours replayed on the real file system (S2C)",
            "Checkpoint.tla models paths, spellings (with / without .eqx, dotted stems, nested new directories) and architecture "
            "signatures; TLC checks round-trip / loud-mismatch / no-partial-load for all histories within bounds, then behaviours "
            "generated by TLC are replayed against the real Serializable.serialize / deserialize with real policy pools (all policy "
            "classes, space kinds, mismatching widths / depths / observation / action dimensions); after every load the outcome must "
            "be the specification's: bit-identical parameters and identical actions / values / log-probs, or an exception.",
            "pools of 4 policies per class (two architectures x two parameter keys).",
            "DESIGN.md section 4 C18"),
    "C02": ("TLA+ EnvOpaque spec (episode envelope + typing invariant) with trace validation of built-in environment rollouts; membership as atoms",
            "There is no discrete model of diffrax / MJX dynamics: EnvOpaque.tla contributes the episode envelope (TimeLimit counters, "
            "auto-reset) so that every observation is attributed to the right state, and the invariant that every typing / membership "
            "atom holds in every state of every trace; rollouts of every built-in environment class x options x wrapper stacks under "
            "sampled and bound-corner action schedules are validated; atoms come from a numpy oracle independent of lerax's spaces.",
            "thin use of the specification, said so: reachable continuous states are sampled (plus an extremal search for classic "
            "control), not enumerated; all eleven MuJoCo classes run in both tiers, G1 in the thorough tier only (compile times).",
            "DESIGN.md section 4 C02"),
    "C11": ("TLA+ Purity spec (lock-step self-composition, leaking mutant as vacuity guard) + families of real learn() runs validated by TLC",
            "TLC checks that two lock-step copies of the training loop with arbitrary observer states never diverge (and that a "
            "training step reading observer state is caught); families of real learn() runs (algorithms x observer sets x keys x "
            "repetitions) are validated: same inputs bit-identical (also across fresh interpreter processes), observers do not change "
            "the result (1e-5), different keys differ (integer seeds and raw keys differing in one 32-bit word), the policy passed "
            "in is untouched.",
            "thin, said so: the substance is the recorded digests; single CPU device; runs with different observer sets are different "
            "XLA programs and are compared with tolerance.",
            "DESIGN.md section 4 C11"),
    "C12": ("TLA+ collector specs: every stream of vmapped real collections validated as a single-environment trace; eager/jit/vmap agreement as atoms",
            "(b) every environment stream of real vmapped on-policy and off-policy collections (num_envs 2..3) must be a behaviour of "
            "the single-environment OnPolicy / OffPolicy specification started in its own carried state (own GAE, own ring, own "
            "statistics): anything crossing streams is unexplainable there. (a) eager = jit = vmap for environment functions is an "
            "atom inside the built-in environment traces. (c) the streams of one vmapped collection must not be copies of each other "
            "(per-environment keys): probe MDP that redraws its state at every step.",
            "(a) is numeric and thin (recorded states, tolerance 1e-5); (b) relies on leaked rows being unexplainable in the receiving stream.",
            "DESIGN.md section 4 C12"),
    "C17": ("TLA+ RefMDP spec (qualitative Gymnasium reference semantics) + threshold probes of the real classic-control environments judged by TLC; differential comparison with the installed Gymnasium environments as atoms",
            "RefMDP.tla states termination predicate, reward of every transition incl. the goal / terminal step and the left-wall rule "
            "of the four classic-control counterparts; lerax environments are placed next to every threshold (thresholds read from "
            "the installed Gymnasium objects) and every probe is judged; initial-state ranges and, for MuJoCo, kinematic consistency "
            "of handed-out states and reward book-keeping are atoms.",
            "Vector fields, time steps, CartPole/Euler trajectories and, for all eleven MuJoCo classes, observation / reward / same-named "
            "reward components / termination from the same physical state and action are compared numerically with the installed "
            "Gymnasium (v5) environments by the harness - with default, with every boolean observation option and with non-default "
            "numeric parameters (weights, asymmetric healthy ranges, two-sided cost ranges; classic control: masses, lengths, forces, "
            "thresholds) set identically on both sides (tolerances measured, DESIGN.md 9.8) - and only collected by the trace "
            "specification: that part has no state-machine content.",
            "DESIGN.md section 4 C17, section 9.8"),
    "C20": ("TLA+ Gait spec (integer tick model, exact rational foot height): TLC exhaustive + real gait functions on tick grids validated; G1 episodes as atoms (thorough)",
            "Gait.tla proves on tick grids that both phases stay in range, half a cycle apart and advance by the increment, and that "
            "the Bezier foot height stays within [0, swing], vanishes at -pi and peaks at 0; the real advance_gait_phase / "
            "desired_foot_height are validated step by step along long histories for every increment from 0 to three cycles per control "
            "step; Apalache discharges the phase invariant for every cycle length and increment; real G1 episodes (randomisation "
            "frame and ranges, kinematic consistency, gait coherence along env.step) are atoms in the thorough tier.",
            "float drift over arbitrarily long histories is not decided; G1 environments only in the thorough tier (about 100 s compile per call).",
            "DESIGN.md section 4 C20"),
}

PENDING_REASON = "check not built yet in this round (planned: see DESIGN.md section 4); not claimed until its machinery exists"


def build() -> dict:
    props = [json.loads(l) for l in (VERIF / "properties.jsonl").read_text().splitlines() if l.strip()]
    checks, na = [], []
    for p in props:
        pid = p["id"]
        if pid in CHECKS:
            tech, text, note, ref = CHECKS[pid]
            checks.append({
                "property_id": pid,
                "quick_cmd": f"{PY} -m lvf.check {pid} --tier quick",
                "thorough_cmd": f"{PY} -m lvf.check {pid} --tier thorough",
                "evidence_file": f"/verif/evidence/{pid}.json",
                "replay_cmd_template": f"{PY} -m lvf.check {pid} --replay {{path}}",
                "engine": "lvf",
                "level_claimed": {"category": "model_checking", "text": text, "design_ref": ref},
                "level_note": note,
                "technique": tech,
            })
        else:
            na.append({"property_id": pid, "reason": NA.get(pid, PENDING_REASON)})
    return {
        "version": 1,
        "setup_cmd": f"{PY} -m lvf.setup",
        "hooks": {
            "guard": "LERAX_VERIF",
            "enable": "no source hooks: the harness drives lerax's public API from /repo/src (editable install); "
                      "LERAX_VERIF=1 is exported by lvf.check but nothing in /repo reads it",
            "baseline_off_cmd": "cd /repo && /venv/bin/python -m pytest -ra -q -p no:cacheprovider --timeout=900 "
                                "--continue-on-collection-errors",
            "source_commits": [],
            "add_only": True,
        },
        "engines": [{"name": "lvf", "path": "/verif/lvf", "serves_properties": sorted(CHECKS),
                     "kind_free_text": "TLA+ specifications in /verif/spec checked by TLC (exhaustive, simulation) and bound "
                                       "to the real lerax code by trace validation (code->spec) and behaviour replay / state and edge cover "
                                       "(spec->code); integer-only fragments (spec/apalache) additionally discharged as unbounded "
                                       "inductive invariants by Apalache 0.58"}],
        "checks": checks,
        "not_applicable": na,
        "notes": "All checks: cwd=/verif; exit 0 held / 1 VIOLATION / 2 machinery failure. VERIF_SEED and VERIF_TIER honoured. "
                 "Known findings: /verif/KNOWN_FINDINGS.json.",
    }


NA: dict = {}

if __name__ == "__main__":
    m = build()
    (VERIF / "MANIFEST.json").write_text(json.dumps(m, indent=1))
    print(f"MANIFEST.json: {len(m['checks'])} checks, {len(m['not_applicable'])} not_applicable")
