"""Driver for C14: builds real lerax spaces / candidate values from terms and records what the real code answers."""
from __future__ import annotations

import itertools
import random
from collections import OrderedDict

import jax
import jax.numpy as jnp
import jax.random as jr
import numpy as np

from lerax.space import Box, Dict, Discrete, MultiBinary, MultiDiscrete, Tuple

NAN, PINF, NINF = 99999, 100000, -100000


def sp(k, n=0, shape=(), lo=0, hi=0, nvec=(), subs=(), keys=()):
    return {"k": k, "n": n, "shape": list(shape), "lo": lo, "hi": hi, "nvec": list(nvec), "subs": list(subs), "keys": list(keys)}


def val(k, shape=(), vals=(), items=(), keys=(), f=0):
    return {"k": k, "shape": list(shape), "vals": list(vals), "items": list(items), "keys": list(keys), "f": f}


def dec(c):
    return {NAN: float("nan"), PINF: float("inf"), NINF: float("-inf")}.get(c, c / 2.0)


def enc(x) -> int:
    x = float(x)
    if np.isnan(x):
        return NAN
    if np.isinf(x):
        return PINF if x > 0 else NINF
    v = x * 2
    return int(round(v)) if abs(v - round(v)) < 1e-6 else 77777


def build_space(t, nudge=None):
    """nudge: a one-element list used as a flag - the first Box met that has a finite non-zero bound gets that bound moved by 2e-6
    relative (a different space, however close), and the flag is cleared"""
    k = t["k"]
    if k == "Discrete":
        return Discrete(t["n"])
    if k == "Box":
        lo, hi = dec(t["lo"]), dec(t["hi"])
        if nudge and nudge[0]:
            if np.isfinite(hi) and hi != 0:
                hi, nudge[0] = hi * (1 + 2e-6) if hi > 0 else hi * (1 - 2e-6), False
            elif np.isfinite(lo) and lo != 0:
                lo, nudge[0] = lo * (1 + 2e-6) if lo < 0 else lo * (1 - 2e-6), False
        return Box(lo, hi, shape=tuple(t["shape"]))
    if k == "MultiBinary":
        return MultiBinary(tuple(t["shape"]) if len(t["shape"]) != 1 or t.get("as_tuple") else t["shape"][0])
    if k == "MultiDiscrete":
        return MultiDiscrete(tuple(t["nvec"]))
    if k == "Tuple":
        return Tuple(tuple(build_space(s, nudge) for s in t["subs"]))
    if k == "Dict":
        return Dict(OrderedDict((key, build_space(s, nudge)) for key, s in zip(t["keys"], t["subs"])))
    raise ValueError(k)


def build_value(v, as_int=False, as_bool=False):
    k = v["k"]
    if k == "arr":
        a = np.array([dec(c) for c in v["vals"]], dtype=np.float32).reshape(tuple(v["shape"]))
        if as_bool:
            return jnp.asarray(a.astype(bool))
        if as_int:
            return jnp.asarray(a.astype(np.int32))
        return jnp.asarray(a)
    if k == "tup":
        return tuple(build_value(x, as_int, as_bool) for x in v["items"])
    if k == "dict":
        return OrderedDict((key, build_value(x, as_int, as_bool)) for key, x in zip(v["keys"], v["items"]))
    return {1: "abc", 2: None, 3: [[1.0, 2.0], [3.0]], 4: object}[v["f"]]


def proj_value(x, t=None):
    """real value -> value term.  With a space term t, elements of Box components are *abstracted* soundly for
    membership: NaN stays NaN, x < low -> low - 1/2, x > high -> high + 1/2, otherwise the nearest half-integer
    inside [low, high] (continuous samples are not half-integers; the abstraction is a member iff the value is)."""
    if isinstance(x, (dict, OrderedDict)):
        subs = dict(zip(t["keys"], t["subs"])) if t and t["k"] == "Dict" else {}
        return val("dict", keys=list(x.keys()), items=[proj_value(y, subs.get(k)) for k, y in x.items()])
    if isinstance(x, tuple):
        subs = t["subs"] if t and t["k"] == "Tuple" and len(t["subs"]) == len(x) else [None] * len(x)
        return val("tup", items=[proj_value(y, s) for y, s in zip(x, subs)])
    a = np.asarray(x)
    flat = a.reshape(-1).astype(np.float64)
    if t and t["k"] == "Box":
        lo, hi = dec(t["lo"]), dec(t["hi"])
        out = []
        for c in flat:
            if np.isnan(c):
                out.append(NAN)
            elif c < lo:
                out.append(t["lo"] - 1)
            elif c > hi:
                out.append(t["hi"] + 1)
            elif np.isinf(c):
                out.append(PINF if c > 0 else NINF)
            else:
                q = int(round(c * 2))
                q = max(q, t["lo"]) if t["lo"] > NINF else q
                q = min(q, t["hi"]) if t["hi"] < PINF else q
                out.append(q)
        return val("arr", shape=a.shape, vals=out)
    return val("arr", shape=a.shape, vals=[enc(c) for c in flat])


def quantise(x, t):
    """a member built from a sample: Box components rounded to half-integers inside the bounds (exactly representable)"""
    if t["k"] == "Dict":
        return OrderedDict((k, quantise(x[k], s)) for k, s in zip(t["keys"], t["subs"]))
    if t["k"] == "Tuple":
        return tuple(quantise(y, s) for y, s in zip(x, t["subs"]))
    if t["k"] == "Box":
        a = np.round(np.asarray(x, dtype=np.float64) * 2) / 2
        a = np.clip(a, dec(t["lo"]), dec(t["hi"]))
        return jnp.asarray(a.astype(np.float32))
    return x


# ------------------------------------------------------------------------------------------------ universe
def leaf_spaces():
    out = [sp("Discrete", n=1), sp("Discrete", n=3)]
    for (lo, hi) in ((NINF, PINF), (-2, 4), (0, 0), (NINF, 0), (2, PINF)):
        for shape in ((), (2,), (2, 2)):
            out.append(sp("Box", shape=shape, lo=lo, hi=hi))
    # every sign pattern of half-bounded and bounded boxes (canonical() / sample() take different branches for each)
    for (lo, hi) in ((NINF, -4), (NINF, 6), (-6, PINF), (-6, -2), (2, 8)):
        for shape in ((), (2,)):
            out.append(sp("Box", shape=shape, lo=lo, hi=hi))
    out += [sp("MultiBinary", shape=(2,)), sp("MultiBinary", shape=(3,)), sp("MultiBinary", shape=(2, 3))]
    out += [sp("MultiDiscrete", nvec=(3,)), sp("MultiDiscrete", nvec=(2, 3)), sp("MultiDiscrete", nvec=(3, 3))]
    return out


def universe(rng: random.Random, n_composite: int):
    leaves = leaf_spaces()
    spaces = list(leaves)
    # composites with Dict components whose keys are deliberately NOT in sorted order are added at the end
    for _ in range(n_composite):
        def comp(depth):
            if depth == 0 or rng.random() < 0.5:
                return rng.choice(leaves)
            m = rng.choice([1, 2, 2])
            subs = [comp(depth - 1) for _ in range(m)]
            if rng.random() < 0.5:
                return sp("Tuple", subs=subs)
            return sp("Dict", subs=subs, keys=["a", "b", "c"][:m])
        m = rng.choice([1, 2, 2, 3])
        subs = [comp(1) for _ in range(m)]
        spaces.append(sp("Tuple", subs=subs) if rng.random() < 0.5 else sp("Dict", subs=subs, keys=["a", "b", "c"][:m]))
    seen, uniq = set(), []
    for s in spaces:
        r = repr(s)
        if r not in seen:
            seen.add(r)
            uniq.append(s)
    return uniq


POOL = [0, 2, 4, -2, 1, 3, 6, 5, -1, 8, 10, NAN, PINF, NINF]


def leaf_probes(rng, t, n):
    """candidate values for a leaf space: members, boundary values, just outside, fractional, NaN/inf, wrong shapes"""
    k = t["k"]
    shape = tuple(t["shape"]) if k in ("Box", "MultiBinary") else (() if k == "Discrete" else (len(t["nvec"]),))
    size = int(np.prod(shape)) if shape else 1
    pool = list(POOL)
    if k == "Box":
        pool += [t["lo"], t["hi"]] + ([t["lo"] - 1] if t["lo"] > NINF else []) + ([t["hi"] + 1] if t["hi"] < PINF else [])
    if k == "Discrete":
        pool += [2 * t["n"], 2 * t["n"] - 2]
    if k == "MultiDiscrete":
        pool += [2 * x for x in t["nvec"]] + [2 * x - 2 for x in t["nvec"]]
    out = []
    # members first
    if k == "Discrete":
        out += [val("arr", (), [2 * i]) for i in range(t["n"])]
    elif k == "MultiBinary":
        out += [val("arr", shape, [rng.choice([0, 2]) for _ in range(size)]) for _ in range(2)]
    elif k == "MultiDiscrete":
        out += [val("arr", shape, [2 * rng.randrange(x) for x in t["nvec"]]) for _ in range(2)]
        out.append(val("arr", shape, [2 * (x - 1) for x in t["nvec"]]))
    else:
        lo, hi = max(t["lo"], -6), min(t["hi"], 6)
        out += [val("arr", shape, [rng.randint(lo, hi) for _ in range(size)]) for _ in range(2)]
        out.append(val("arr", shape, [t["lo"] if t["lo"] > NINF else -6] * size))
        out.append(val("arr", shape, [t["hi"] if t["hi"] < PINF else 6] * size))
    # one element off
    for _ in range(n):
        base = list(out[rng.randrange(min(len(out), 3))]["vals"])
        base[rng.randrange(size)] = rng.choice(pool)
        out.append(val("arr", shape, base))
    # wrong shapes
    out.append(val("arr", shape + (1,), [0] * size))
    out.append(val("arr", (size + 1,), [0] * (size + 1)))
    if shape:
        out.append(val("arr", (), [0]))
        if len(shape) == 2:
            out.append(val("arr", (shape[1], shape[0]) if shape[0] != shape[1] else (shape[0],), [0] * (size if shape[0] != shape[1] else shape[0])))
    out += [val("foreign", f=1), val("foreign", f=2), val("foreign", f=3)]
    return out


def probes_for(rng, t, n):
    if t["k"] in ("Discrete", "Box", "MultiBinary", "MultiDiscrete"):
        return leaf_probes(rng, t, n)
    subs = [probes_for(rng, s, max(2, n // 2)) for s in t["subs"]]
    mk = (lambda items: val("tup", items=items)) if t["k"] == "Tuple" else (lambda items: val("dict", keys=t["keys"], items=items))
    out = [mk([ps[0] for ps in subs])]            # index 0 is always a member (ps[0] is one, recursively)
    for _ in range(n + 4):
        out.append(mk([rng.choice(ps[:3]) if rng.random() < 0.6 else rng.choice(ps) for ps in subs]))
    first = [ps[0] for ps in subs]
    out.append(mk(first))
    out.append(mk(first + [first[0]]) if t["k"] == "Tuple" else val("dict", keys=t["keys"] + ["z"], items=first + [first[0]]))
    if len(first) > 1:
        out.append(mk(first[:-1]) if t["k"] == "Tuple" else val("dict", keys=t["keys"][:-1], items=first[:-1]))
    out.append(first[0])                                   # a bare component instead of the container
    out += [val("foreign", f=1), val("foreign", f=2)]
    if t["k"] == "Dict":
        out.append(val("tup", items=first))
    else:
        out.append(val("dict", keys=["a", "b", "c"][:len(first)], items=first))
    return out


# ------------------------------------------------------------------------------------------------ recording
def rec_contains(space, t, v) -> dict:
    ev = dict(ev="contains", v=v, res=False, scalar=False, raised=False)
    try:
        as_bool = t["k"] == "MultiBinary" and v["k"] == "arr" and all(c in (0, 2) for c in v["vals"]) and (len(v["vals"]) % 2 == 0)
        x = build_value(v, as_bool=as_bool)
        r = space.contains(x)
        a = np.asarray(r)
        ev["scalar"] = bool(a.shape == () and a.dtype == np.bool_)
        ev["res"] = bool(a) if a.shape == () else bool(a.all())
        if ev["scalar"]:
            r2 = (x in space)
            if bool(r2) != ev["res"]:
                ev["scalar"] = False
    except Exception as ex:  # noqa: BLE001
        ev["raised"] = True
        ev["exc"] = f"{type(ex).__name__}: {str(ex)[:120]}"
    return ev


def rekey(x):
    """the same nested value with the keys of every dictionary (>= 2 keys) in reversed order; None if nothing changes"""
    changed = [False]

    def go(y):
        if isinstance(y, (dict, OrderedDict)):
            items = [(k, go(v)) for k, v in y.items()]
            if len(items) >= 2:
                changed[0] = True
                items.reverse()
            return OrderedDict(items)
        if isinstance(y, tuple):
            return tuple(go(v) for v in y)
        return y
    out = go(x)
    return out if changed[0] else None


def rec_space(t, probes, others, keys, rng) -> list:
    """all events for one space term; each event becomes its own trace"""
    space = build_space(t)
    evs = [rec_contains(space, t, v) for v in probes]
    evs.append(dict(ev="canonical", v=proj_value(space.canonical(), t)))
    for k in keys:
        mask = []
        if t["k"] == "Discrete" and t["n"] > 1 and k % 2 == 0:
            mask = [rng.random() < 0.5 for _ in range(t["n"])]
            if not any(mask):
                mask[rng.randrange(t["n"])] = True
        s = space.sample(key=jr.key(k), mask=jnp.asarray(mask)) if mask else space.sample(key=jr.key(k))
        evs.append(dict(ev="sample", v=proj_value(s, t), mask=mask))
        if not np.any([np.any(np.isnan(np.asarray(z, dtype=np.float64))) for z in jax.tree.leaves(s)]):
            q = quantise(s, t)
            fl = np.asarray(space.flatten_sample(q))
            evs.append(dict(ev="flatten", v=proj_value(q), len=int(fl.shape[0]) if fl.ndim == 1 else -1,
                            flat_size=int(space.flat_size), vals=[enc(c) for c in fl.reshape(-1)]))
            # the same mapping with every dictionary's keys listed in the opposite order: where the implementation accepts it
            # as a member (it looks entries up by key), its flat vector must still be the one of the mapping
            q2 = rekey(q)
            if q2 is not None:
                try:
                    member = bool(np.asarray(space.contains(q2)).all())
                except Exception:  # noqa: BLE001 - membership of re-keyed values is judged nowhere (open in the property text)
                    member = False
                if member:
                    fl2 = np.asarray(space.flatten_sample(q2))
                    evs.append(dict(ev="flatten", v=proj_value(q2), len=int(fl2.shape[0]) if fl2.ndim == 1 else -1,
                                    flat_size=int(space.flat_size), vals=[enc(c) for c in fl2.reshape(-1)], rekeyed=True))
    def reorder(tt):
        """the same Dict keys in another order, at the first Dict found (None if there is none with >= 2 keys)"""
        if tt["k"] == "Dict" and len(tt["keys"]) >= 2:
            c = dict(tt)
            c["keys"], c["subs"] = list(reversed(tt["keys"])), list(reversed(tt["subs"]))
            return c
        if tt["k"] in ("Tuple", "Dict"):
            for i, sub in enumerate(tt["subs"]):
                r = reorder(sub)
                if r is not None:
                    c = dict(tt)
                    c["subs"] = list(tt["subs"])
                    c["subs"][i] = r
                    return c
        return None

    ro = reorder(t)
    for o in list(others) + ([ro] if ro is not None else []):
        ev = dict(ev="eq", other=o, res=False, hash_ok=True, hash_equal=False, open=(o is ro))
        other = build_space(o)
        ev["res"] = bool(space == other)
        try:
            h = hash(space)
        except Exception as ex:  # noqa: BLE001
            ev["hash_ok"] = False
            ev["exc"] = f"{type(ex).__name__}: {str(ex)[:120]}"
        else:
            try:
                ev["hash_equal"] = h == hash(other)
            except Exception:  # noqa: BLE001 - the other space's hash is judged in its own trace
                ev["hash_equal"] = True
        evs.append(ev)
    # equality is exact in the parameters: the same structure with ONE Box bound moved by 2e-6 relative is another space
    flag = [True]
    near = build_space(t, flag)
    if not flag[0]:
        evs.append(dict(ev="eq_near", res=bool(space == near), res_sym=bool(near == space)))
    ev = dict(ev="gym", ok=True, eq=False)
    try:
        from lerax.compatibility.gym import gym_space_to_lerax_space, lerax_to_gym_space
        back = gym_space_to_lerax_space(lerax_to_gym_space(space))
        ev["eq"] = bool(back == space) and bool(space == back)
    except Exception as ex:  # noqa: BLE001
        ev["ok"] = False
        ev["exc"] = f"{type(ex).__name__}: {str(ex)[:120]}"
    evs.append(ev)
    return evs
