"""Driver: real on-policy collection (algo.reset + algo.iteration of PPO / A2C / REINFORCE) on TableEnv
with a TableACPolicy; records one OnPolicy trace per environment stream.

The rollout buffer is observed through public extension points only: a subclass overrides the abstract
method `train` (returning the buffer it was handed in the training log) and a harness callback keeps the
training log of the last iteration in its (public) callback state."""
from __future__ import annotations

import equinox as eqx
import jax
import jax.numpy as jnp
import jax.random as jr
import numpy as np

from lerax.algorithm import A2C, PPO, REINFORCE
from lerax.callback import (AbstractCallback, AbstractCallbackState, AbstractCallbackStepState, AbstractLoggingBackend,
                            CallbackList, LoggingCallback)

from . import tables as tb


class RecState(AbstractCallbackState):
    log: dict | None


class StepTrace(AbstractCallbackStepState):
    """per-environment record of what on_step was told: (reward, done) of the last step and counters"""
    n: jax.Array
    rsum: jax.Array


class Recorder(AbstractCallback):
    """Keeps the last training log (holds the rollout buffer) and counts what on_step was told."""

    def reset(self, ctx, *, key):
        return RecState(None)

    def step_reset(self, ctx, *, key):
        return StepTrace(jnp.asarray(0, dtype=jnp.int32), jnp.asarray(0.0))

    def on_step(self, ctx, *, key):
        return StepTrace(ctx.state.n + 1, ctx.state.rsum + ctx.reward)

    def on_iteration(self, ctx, *, key):
        return RecState(ctx.training_log)

    def on_training_start(self, ctx, *, key):
        return ctx.state

    def on_training_end(self, ctx, *, key):
        return ctx.state

    def continue_training(self, ctx, *, key):
        return jnp.array(True)


class RecordingBackend(AbstractLoggingBackend):
    """Logging backend that appends every call to a Python list (a user of the public backend interface)."""
    records: list = eqx.field(static=True)

    def __init__(self):
        self.records = []

    def open(self, name):
        self.records.append(("open", name))

    def log_hparams(self, hparams):
        self.records.append(("hparams", dict(hparams)))

    def log_scalars(self, scalars, step):
        keep = {k: float(np.asarray(v)) for k, v in scalars.items()
                if isinstance(v, (np.ndarray, np.generic, float, int)) and np.ndim(v) == 0}
        self.records.append(("scalars", keep, int(np.asarray(step))))

    def log_video(self, tag, frames, step, fps):
        self.records.append(("video", tag, int(step)))

    def close(self):
        self.records.append(("close",))


_LOGCB = None
_TWINS: dict = {}


def logging_callback(an: int):
    """The one real LoggingCallback used by all recorded runs (its static parts must not change between runs,
    or every run would recompile); alpha = an/4 is an array leaf.  It fans out to TWO recording backends (the
    constructor documents a sequence of backends): the first is the one the traces are read from, the second must
    have received exactly the same records (record_summary)."""
    global _LOGCB
    if _LOGCB is None:
        be, be2 = RecordingBackend(), RecordingBackend()
        _TWINS[id(be)] = [be2]
        _LOGCB = (LoggingCallback([be, be2], name="lvf"), be)
    cb, be = _LOGCB
    return eqx.tree_at(lambda c: c.alpha, cb, jnp.asarray(an / 4.0, dtype=jnp.float32)), be


def clear_records(backend) -> None:
    for b in [backend] + _TWINS.get(id(backend), []):
        del b.records[:]


def record_summary(backend, N: int):
    """what reached the backends so far: the last scalar record of the first backend, and the same projection for
    every other backend of the callback (`others`)"""
    def summ(be):
        recs = [r for r in be.records if r[0] == "scalars"]
        if not recs:
            return None
        return {"n_records": len(recs), "step": recs[-1][2],
                "retN": int(round(recs[-1][1]["episode/return"] * N * SD)),
                "lenN": int(round(recs[-1][1]["episode/length"] * N * SD))}
    main = summ(backend)
    others = [summ(t) for t in _TWINS.get(id(backend), [])]
    if main is None:
        if all(o is None for o in others):
            return None
        main = {"n_records": 0, "step": -1, "retN": 0, "lenN": 0}
    main["others"] = [[o["n_records"], o["step"], o["retN"], o["lenN"]] if o else [0, -1, 0, 0] for o in others]
    return main


SD = 65536


def proj_stats(st) -> dict:
    def fxs(x):
        v = float(x) * SD
        return int(round(v)) if abs(v - round(v)) < 1e-2 and abs(v) < 2e9 else 7777777
    r = float(st.episode_return)
    return dict(step=int(st.step), ret=int(round(r)) if abs(r - round(r)) < 1e-4 else 7777777, len=int(st.episode_length),
                latch=bool(st.episode_done), avgR=fxs(st.average_return), avgL=fxs(st.average_length))


def _rec_train(self, policy, opt_state, buffer, *, key):
    return policy, opt_state, {"buffer": buffer}


class RecPPO(PPO):
    train = _rec_train


class RecA2C(A2C):
    train = _rec_train


class RecREINFORCE(REINFORCE):
    train = _rec_train


_ALGOS: dict = {}


def make_algo(name: str, N: int, T: int):
    """one algorithm object per (name, N, T): the optax transformation inside is a static leaf, so a fresh
    object would force a recompilation"""
    k = (name, N, T)
    if k not in _ALGOS:
        _ALGOS[k] = _make_algo(name, N, T)
    return _ALGOS[k]


def _make_algo(name: str, N: int, T: int):
    if name == "PPO":
        a = RecPPO(num_envs=N, num_steps=T, num_epochs=1, num_batches=1, gamma=0.5, gae_lambda=0.5)
    elif name == "A2C":
        a = RecA2C(num_envs=N, num_steps=T, gamma=0.5, gae_lambda=0.5)
    else:
        a = RecREINFORCE(num_envs=N, num_steps=T, gamma=0.5)
    return a


def with_hparams(algo, g2: int, l2: int):
    """gamma / gae_lambda as array leaves (no recompilation per value); REINFORCE fixes lambda = 1."""
    algo = eqx.tree_at(lambda a: a.gamma, algo, jnp.asarray(g2 / 2.0, dtype=jnp.float32))
    if not isinstance(algo, REINFORCE):
        algo = eqx.tree_at(lambda a: a.gae_lambda, algo, jnp.asarray(l2 / 2.0, dtype=jnp.float32))
    return algo


@eqx.filter_jit
def _reset(algo, env, policy, key, cb):
    return algo.reset(env, policy, key=key, callback=cb)


@eqx.filter_jit
def _iteration(algo, state, key, cb):
    return algo.iteration(state, key=key, callback=cb)


def half(x) -> int:
    v = float(x) * 2.0
    return int(round(v)) if abs(v - round(v)) < 1e-4 and abs(v) < 1e6 else 7777777


def fx(x, D: int) -> int:
    v = float(x) * D
    return int(round(v)) if abs(v - round(v)) < 1e-3 and abs(v) < 2e9 else 7777777


def act_code(akind: str, a) -> int:
    return int(np.asarray(a)) if akind == "disc" else tb.q4(a)


def record_onpolicy(cache: tb.EnvCache, cfg: dict, algo_name: str, N: int, iters: int, seed: int,
                    env=None, state_proj=None) -> list:
    """cfg: MDP + stack + policy tables + g2, l2, T.  Returns one trace per (iteration, environment stream).
    `env` / `state_proj` override the environment object and the state projection (used for adapted environments)."""
    env = env if env is not None else cache.get(cfg)
    depth = len(cfg["stack"])
    state_proj = state_proj or (lambda st: tb.proj_env_state(st, depth))
    asp, osp = tb.outer_spaces(cfg)
    T = cfg["H"]
    policy = tb.TableACPolicy(env, cfg)
    algo = with_hparams(make_algo(algo_name, N, T), cfg["g2"], 2 if algo_name == "REINFORCE" else cfg["l2"])
    logcb, backend = logging_callback(cfg.get("an", 2))
    cb = CallbackList([Recorder(), logcb])
    k0, k1 = jr.split(jr.key(seed))
    state = _reset(algo, env, policy, k0, cb)
    traces = []
    jax.effects_barrier()
    clear_records(backend)
    done_count = [0] * N
    big = [False] * N          # a poison reward (-99) was paid in this stream: the statistics leave the exact range earlier
    D = 2 ** (2 * T - 1)
    for it, k in enumerate(jr.split(k1, iters)):
        before = jax.device_get(state.step_state)
        state = _iteration(algo, state, k, cb)
        buf = jax.device_get(state.callback_state.states[0].log["buffer"])
        after = jax.device_get(state.step_state)
        jax.effects_barrier()
        for e in range(N):
            sel = (lambda x: x[e]) if N > 1 else (lambda x: x)
            b = jax.tree.map(sel, buf)
            s0 = jax.tree.map(sel, before)
            s1 = jax.tree.map(sel, after)
            rows = []
            for t in range(T):
                rows.append(dict(
                    obs=tb.obs_code(osp["kind"], b.observations[t]), act=act_code(asp["kind"], b.actions[t]),
                    rew=half(b.rewards[t]), done=bool(b.dones[t]), logp=tb.q4(b.log_probs[t]), val=tb.q4(b.values[t]) // 4
                    if tb.q4(b.values[t]) % 4 == 0 else 7777777, pstate=int(b.states.n[t]),
                    mask=[bool(x) for x in b.action_masks[t]] if b.action_masks is not None else []))
            init = dict(state_proj(s0.env_state), ps=int(s0.policy_state.n),
                        stats=proj_stats(s0.callback_state.states[1]))
            fin = dict(state_proj(s1.env_state), ps=int(s1.policy_state.n),
                       adv=[fx(x, D) for x in b.advantages], ret=[fx(x, D) for x in b.returns],
                       stats=proj_stats(s1.callback_state.states[1]))
            done_count[e] += sum(1 for r in rows if r["done"])
            big[e] = big[e] or any(abs(r["rew"]) >= 2 * tb.BIG_REWARD and r["rew"] != 7777777 for r in rows)       # rew is in halves
            traces.append({"cfg": cfg, "init": init, "rows": rows, "final": fin,
                           "meta": {"algo": algo_name, "N": N, "env": e, "iter": it, "dones_so_far": done_count[e], "big_reward_so_far": big[e],
                                    "cb_steps": int(s1.callback_state.states[0].n),
                                    "record": record_summary(backend, N)}})
    return traces


def record_from_state(cfg: dict, env, algo, state, cb, backend, seed: int) -> list:
    """one real iteration (rollout length cfg['H'], one environment) from the given algorithm state; same trace format as
    record_onpolicy (the carried state before the iteration is the trace's init)"""
    depth = len(cfg["stack"])
    asp, osp = tb.outer_spaces(cfg)
    T = cfg["H"]
    D = 2 ** (2 * T - 1)
    before = jax.device_get(state.step_state)
    clear_records(backend)
    new = _iteration(algo, state, jr.key(seed), cb)
    b = jax.device_get(new.callback_state.states[0].log["buffer"])
    after = jax.device_get(new.step_state)
    jax.effects_barrier()
    rows = []
    for t in range(T):
        rows.append(dict(
            obs=tb.obs_code(osp["kind"], b.observations[t]), act=act_code(asp["kind"], b.actions[t]),
            rew=half(b.rewards[t]), done=bool(b.dones[t]), logp=tb.q4(b.log_probs[t]), val=tb.q4(b.values[t]) // 4
            if tb.q4(b.values[t]) % 4 == 0 else 7777777, pstate=int(b.states.n[t]),
            mask=[bool(x) for x in b.action_masks[t]] if b.action_masks is not None else []))
    init = dict(tb.proj_env_state(before.env_state, depth), ps=int(before.policy_state.n), stats=proj_stats(before.callback_state.states[1]))
    fin = dict(tb.proj_env_state(after.env_state, depth), ps=int(after.policy_state.n),
               adv=[fx(x, D) for x in b.advantages], ret=[fx(x, D) for x in b.returns], stats=proj_stats(after.callback_state.states[1]))
    return [{"cfg": cfg, "init": init, "rows": rows, "final": fin,
             "meta": {"algo": "PPO", "N": 1, "env": 0, "iter": 0, "dones_so_far": sum(1 for r in rows if r["done"]), "record": None}}]
