"""CLI:  python -m lvf.check <ID> [--tier quick|thorough] [--replay PATH]

exit 0: property held on everything explored (known findings are printed as KNOWN-FINDING lines)
exit 1: at least one violation not listed in KNOWN_FINDINGS.json (one VIOLATION line each)
exit 2: machinery failure (TLC crash, harness error) - never a verdict about the property
"""
from __future__ import annotations

import argparse
import importlib
import json
import os
import sys
import traceback

os.environ.setdefault("JAX_PLATFORMS", "cpu")
os.environ.setdefault("PYTHONHASHSEED", "0")
os.environ.setdefault("XLA_PYTHON_CLIENT_PREALLOCATE", "false")
os.environ.setdefault("LERAX_VERIF", "1")

from . import core  # noqa: E402


def _raised_inside_lerax(pid: str, ex: BaseException):
    """The drivers only feed the implementation inputs for which the property demands an answer (they all run to completion
    on the unchanged tree).  An exception whose innermost non-library frame lies in the lerax package itself is therefore the
    implementation refusing such an input: a violation ("... for every valid ..."), not a machinery failure.  Exceptions
    raised in harness code (lvf), including harness code called back from lerax, stay machinery failures."""
    if isinstance(ex, core.Machinery):
        return None
    try:
        import lerax
        root = os.path.dirname(os.path.abspath(lerax.__file__)) + os.sep
    except Exception:
        return None
    here = os.path.dirname(os.path.abspath(__file__)) + os.sep
    frames = traceback.extract_tb(ex.__traceback__)
    user = [f for f in frames if "site-packages" not in f.filename and not f.filename.startswith("<")]
    if not user:
        return None
    last = user[-1]
    fn = os.path.abspath(last.filename)
    if not fn.startswith(root) or fn.startswith(here):
        return None
    rel = fn[len(root):]
    caller = next((f for f in reversed(user) if os.path.abspath(f.filename).startswith(here)), None)
    what = (f"the implementation raised {type(ex).__name__}: {str(ex).splitlines()[0][:200] if str(ex) else ''} in lerax/{rel}:"
            f"{last.lineno} ({last.name}) on an input the drivers of {pid} complete on the unchanged tree"
            + (f"; called from {os.path.basename(caller.filename)}:{caller.lineno} ({caller.name})" if caller else ""))
    return core.Violation(f"{pid}:raises:{type(ex).__name__}:{rel}:{last.name}", what, "exception",
                          {"traceback": [f"{f.filename}:{f.lineno} {f.name}" for f in user[-12:]]})


def main(argv=None) -> int:
    ap = argparse.ArgumentParser()
    ap.add_argument("pid")
    ap.add_argument("--tier", default=os.environ.get("VERIF_TIER", "quick"), choices=["quick", "thorough"])
    ap.add_argument("--replay", default=None)
    ap.add_argument("--keep-work", action="store_true")
    args = ap.parse_args(argv)
    if os.environ.get("VERIF_TIER") in ("quick", "thorough"):
        args.tier = os.environ["VERIF_TIER"]
    seed = int(os.environ.get("VERIF_SEED", "0") or 0)
    pid = args.pid.upper()
    ctx = core.Ctx(pid, args.tier, seed)
    # Everything the drivers and the implementation print (progress bars without a final newline - also from atexit hooks and
    # through rich's stdout proxy -, JAX warnings) goes to stderr for the whole life of the process; the verdict lines are written
    # straight to the original stdout descriptor, each at the start of a line.
    sys.stdout.flush()
    real_stdout = os.dup(1)
    os.dup2(2, 1)

    def emit(line: str = ""):
        os.write(real_stdout, (line + "\n").encode())

    def restore_stdout():
        try:
            sys.stdout.flush()
        except Exception:
            pass
    try:
        mod = importlib.import_module(f"lvf.props.{pid.lower()}")
        if args.replay:
            payload = json.loads(open(args.replay).read())
            if payload["driver"] == "exception":      # an implementation exception: re-run the whole check
                args.replay_run = True
            else:
                rep = mod.replay(ctx, payload["driver"], payload["case"])
        if not args.replay or getattr(args, "replay_run", False):
            try:
                rep = mod.run(ctx)
                from . import specmut
                specmut.run_for(ctx, rep, pid)   # vacuity guards: wrong variants of the specification must be rejected by TLC
                from . import apalache
                apalache.run_for(ctx, rep, pid)  # unbounded inductive invariants of the integer-only fragments
            except Exception as ex:
                # a vacuity guard / binding self-test could not run.  If real violations were already found (e.g. no accepted
                # trace is left to corrupt because the tree is broken) they are the verdict; otherwise it is a machinery failure.
                if not core.ALL_VIOLATIONS:
                    v = _raised_inside_lerax(pid, ex)
                    if v is None:
                        raise
                    traceback.print_exc()
                rep = core.Report()
                rep.violations = list(core.ALL_VIOLATIONS)
                rep.notes.append(f"run incomplete: {str(ex)[:300]}")
                rep.samples.append({"note": "run aborted by a guard after violations had been found"})
                rep.states = rep.transitions = 1
        restore_stdout()
        known = core.known_keys(pid)
        unlisted, seen_known = [], {}
        seen = set()
        for v in rep.violations:
            if v.key in known:
                seen_known.setdefault(v.key, v)
            else:
                if (v.key, v.what) in seen:
                    continue
                seen.add((v.key, v.what))
                unlisted.append(v)
        for k, v in seen_known.items():
            emit(f"KNOWN-FINDING: property={pid} {known[k]['what']} [key={k}]")
        # cap the number of reported violations per key (each still gets a replay file)
        per_key = {}
        for v in unlisted:
            per_key.setdefault(v.key, []).append(v)
        n_unlisted = 0
        for k, vs in per_key.items():
            for v in vs[:3]:
                p = core.write_replay(pid, v)
                emit(f"VIOLATION property={pid} replay={p}")
                emit(f"  key={v.key}: {v.what}")
                n_unlisted += 1
            if len(vs) > 3:
                emit(f"  (+{len(vs) - 3} further violations with key={k})")
        if not args.replay and not os.environ.get("LVF_SCRATCH"):
            core.write_evidence(ctx, rep, getattr(mod, "LEVEL", "model_checking"), n_unlisted, len(seen_known))
        emit(f"{pid} tier={args.tier} seed={seed}: states={rep.states} transitions={rep.transitions} "
              f"traces={rep.traces} evaluations={rep.evaluations} violations={n_unlisted} known={len(seen_known)} "
              f"wall={core.time.time() - ctx.t0:.1f}s")
        return 1 if n_unlisted else 0
    except Exception:
        restore_stdout()
        traceback.print_exc()
        emit(f"MACHINERY-FAILURE property={pid} (exit 2; not a verdict)")
        return 2
    finally:
        if not args.keep_work:
            ctx.cleanup()


if __name__ == "__main__":
    sys.exit(main())
