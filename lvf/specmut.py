"""Vacuity guards: deliberately wrong variants of the specification modules ("spec mutants").  Each mutant is a textual
substitution in one module that reproduces a realistic implementation mistake *in the implementation-shaped part*; TLC must
then report a violation of the named declarative property on the same bounded instance that passes for the real module.
A mutant that survives means the declarative property has no teeth there (machinery failure, exit 2).

    python -m lvf.specmut [names...]        run all / the named mutants"""
from __future__ import annotations

import json
import shutil
import sys
from pathlib import Path

from . import tlc
from .core import Ctx, Machinery

# name: (module file, old text, new text, MC module, MC cfg, expected violated property(ies), needs CFG_FILE from, property ids)
MUTANTS = {
    "ring_index_off_by_one": ("RingOps.tla", "![r.pos % cap] = row", "![(r.pos + 1) % cap] = row", "mc/MC_ReplayRing.tla", "mc/MC_ReplayRing.cfg",
                              {"Recent", "RecentBag", "ValidAreStored"}, None, ["C06", "C05"]),
    "ring_position_not_advanced_on_wrap": ("RingOps.tla", "pos |-> r.pos + 1]", "pos |-> IF r.pos + 1 > 2 * cap THEN r.pos ELSE r.pos + 1]",
                                           "mc/MC_ReplayRing.tla", "mc/MC_ReplayRing.cfg", {"Recent", "RecentBag", "ValidAreStored", "StoredCount"}, None, ["C06"]),
    "timelimit_strict_comparison": ("MDP.tla", "ws.cnt[i] >= W(i).n", "ws.cnt[i] > W(i).n", "mc/MC_EnvAPI.tla", "mc/MC_EnvAPI.cfg",
                                    {"TruncExact", "NeverPastLimit"}, "c01", ["C01", "C13"]),
    "reset_only_on_terminal": ("EnvAPI.tla", "IF o.term \\/ o.trunc\n       THEN", "IF o.term\n       THEN", "mc/MC_EnvAPI.tla", "mc/MC_EnvAPI.cfg",
                               {"FreshIffDone", "NeverPastLimit", "CountersAreClock"}, "c01", ["C01"]),
    "gae_recursion_not_cut_at_done": ("GAE.tla", "(c.gn * c.ln * NNT(c, t) * ScanAdv(c, t + 1)) \\div (c.den * c.den)",
                                      "(c.gn * c.ln * ScanAdv(c, t + 1)) \\div (c.den * c.den)", "mc/MC_GAE.tla", "mc/MC_GAE.cfg",
                                      {"MatchesDefinition", "CutAtDone", "Lambda1IsMonteCarlo", "Exact"}, None, ["C03"]),
    "bootstrap_through_termination": ("OnPolicy.tla", "IF so.trunc /\\ ~so.term THEN", "IF so.trunc THEN", "mc/MC_OnPolicy.tla", "mc/MC_OnPolicy.cfg",
                                      {"BootstrapOnlyThroughTruncation"}, "onpolicy", ["C04"]),
    "policy_state_not_restarted": ("OnPolicy.tla", "ps' = IF f.done THEN 0 ELSE ps + 1", "ps' = ps + 1", "mc/MC_OnPolicy.tla", "mc/MC_OnPolicy.cfg",
                                   {"RestartAfterDone"}, "onpolicy", ["C04", "C12"]),
    "timeout_is_truncation": ("OffPolicy.tla", "timeout |-> so.trunc /\\ ~so.term", "timeout |-> so.trunc", "mc/MC_OffPolicy.tla", "mc/MC_OffPolicy.cfg",
                              {"TimeoutIffTruncatedOnly"}, "offpolicy", ["C05"]),
    "target_update_before_increment": ("Schedule.tla", "tgt' = IF cfg.alg = \"DQN\" /\\ iter' % cfg.K = 0", "tgt' = IF cfg.alg = \"DQN\" /\\ iter % cfg.K = 0",
                                       "mc/MC_Schedule.tla", "mc/MC_Schedule_quick.cfg", {"TargetIsLastMultiple", "UnchangedInBetween"}, None, ["C10"]),
    "actor_gate_after_increment": ("Schedule.tla", "LET upd == (iter % cfg.pf = 0) IN", "LET upd == ((iter + 1) % cfg.pf = 0) IN",
                                   "mc/MC_Schedule.tla", "mc/MC_Schedule_quick.cfg", {"ActorOnlyOnSchedule"}, None, ["C10"]),
    "stats_latch_read_after_update": ("EpisodeStats.tla", "LET ret2 == (IF st.latch THEN 0 ELSE st.ret) + r", "LET ret2 == (IF d THEN 0 ELSE st.ret) + r",
                                      "mc/MC_EpisodeStats.tla", "mc/MC_EpisodeStats.cfg", {"Faithful"}, None, ["C19"]),
    "minibatch_pad_instead_of_trim": ("Minibatch.tla", "RowsOf(p) == [r \\in 1..NumRows |-> [j \\in 1..cfg.B |-> p[(r - 1) * cfg.B + j]]]",
                                      "RowsOf(p) == [r \\in 1..((N + cfg.B - 1) \\div cfg.B) |-> [j \\in 1..cfg.B |-> IF (r - 1) * cfg.B + j > N THEN p[(r - 1) * cfg.B + j - N] ELSE p[(r - 1) * cfg.B + j]]]",
                                      "mc/MC_Minibatch.tla", "mc/MC_Minibatch.cfg", {"UsedCount", "AtMostOncePerEpoch", "DroppedFewerThanB", "VisitTotal", "VisitsBounded"},
                                      None, ["C09"]),
    "td_mask_ignores_timeout": ("Losses.tla", "NotTerminalImpl(row) == ~row.done \\/ row.timeout", "NotTerminalImpl(row) == ~row.done",
                                "mc/MC_Losses.tla", "mc/MC_Losses.cfg", {"MaskAgrees"}, None, ["C07"]),
    "masked_weights_not_zeroed": ("DiscreteLaws.tla", "IF m[i] THEN w[i] ELSE 0", "IF m[i] THEN w[i] ELSE 1", "mc/MC_DiscreteLaws.tla",
                                  "mc/MC_DiscreteLaws.cfg", {"ZeroOutsideMask", "ModeIsAllowedArgMax", "RatiosPreserved"}, None, ["C16", "C15"]),
    "gait_wrap_without_recentring": ("Gait.tla", "Advance(p) == ((p + m + Half) % K) - Half", "Advance(p) == (p + m) % K", "mc/MC_Gait.tla", "mc/MC_Gait.cfg",
                                     {"InRange", "HalfCycleApart"}, None, ["C20"]),
    "load_ignores_signature": ("Checkpoint.tla", "IF b # Absent /\\ b.sig = Sig(skel) THEN", "IF b # Absent THEN", "mc/MC_Checkpoint.tla", "mc/MC_Checkpoint.cfg",
                               {"RoundTrip"}, None, ["C18"]),
    "wrapper_reward_on_unmapped_action": ("MDP.tla", "WReward(ws, a, ws2) == RewUp(Depth, cfg.R[ws.s][WIdx(a)][ws2.s])",
                                          "WReward(ws, a, ws2) == RewUp(Depth, cfg.R[ws.s][BaseIdx(a)][ws2.s])", "mc/MC_Wrappers.tla", "mc/MC_Wrappers.cfg",
                                          {"DeclaredChangeOnly"}, "c13", ["C13"]),
    "training_reads_observer": ("Purity.tla", "Train(p, k, o) == Mix(p, k)", "Train(p, k, o) == Mix(p, k + o)", "mc/MC_Purity.tla", "mc/MC_Purity.cfg",
                                {"Agree"}, None, ["C11"]),
}


def _cfg_file(ctx: Ctx, source: str) -> Path:
    """MC configurations written exactly as the owning check writes them"""
    f = ctx.work / f"specmut_{source}.json"
    if f.exists():
        return f
    if source == "c01":
        from .props import c01
        cfgs = c01.mc_cfgs(ctx)
    elif source == "onpolicy":
        from . import onpolicy_suite
        cfgs = onpolicy_suite.mc_cfgs(ctx)
    elif source == "offpolicy":
        from . import offpolicy_suite
        cfgs = offpolicy_suite.mc_cfgs(ctx)
    else:
        import random
        from . import tables as tb
        rng = random.Random(1313)
        cfgs = []
        for kind in ("ClipAction", "RescaleAction", "TransformAction", "TimeLimit"):
            for _ in range(6):
                for _try in range(50):
                    m = tb.gen_mdp(rng, rng.choice(["disc", "box"]), "disc", nS=3)
                    c = tb.with_stack(m, [])
                    a, o = tb.outer_spaces(c)
                    if tb.compatible(kind, a, o):
                        c["stack"].append(tb.gen_wrapper(rng, kind, a, o, m["nA"]))
                        c["acts"] = tb.candidate_actions(c)
                        cfgs.append(c)
                        break
    f.write_text(json.dumps(cfgs))
    return f


def run_mutant(ctx: Ctx, name: str) -> dict:
    fname, old, new, mcmod, mccfg, expected, cfgsrc, _ = MUTANTS[name]
    src = (tlc.SPEC / fname).read_text()
    if old not in src:
        raise Machinery(f"spec mutant {name}: pattern not found in {fname} (the module changed; update lvf/specmut.py)")
    d = ctx.work / f"specmut_{name}"
    shutil.rmtree(d, ignore_errors=True)
    d.mkdir(parents=True)
    (d / fname).write_text(src.replace(old, new, 1))
    shutil.copy(tlc.SPEC / mcmod, d / Path(mcmod).name)
    shutil.copy(tlc.SPEC / mccfg, d / Path(mccfg).name)
    env = {"CFG_FILE": str(_cfg_file(ctx, cfgsrc))} if cfgsrc else None
    res = tlc.run(d / Path(mcmod).name, d / Path(mccfg).name, workdir=ctx.work, workers=8, env=env, timeout=1500)
    shutil.rmtree(d, ignore_errors=True)
    killed = (res.violated is not None) and (res.violated in expected or res.violated == "temporal" or
                                              any(res.violated.endswith(e) for e in expected))
    return {"mutant": name, "module": fname, "killed_by": res.violated, "expected_one_of": sorted(expected), "killed": bool(killed),
            "error": res.error}


def run_for(ctx: Ctx, rep, pid: str):
    """run the spec mutants that concern property pid; a surviving mutant is a machinery failure"""
    out = []
    for name, m in MUTANTS.items():
        if pid in m[7]:
            r = run_mutant(ctx, name)
            out.append(r)
            if not r["killed"]:
                raise Machinery(f"spec mutant {name} survived: TLC reported {r['killed_by']} / {r['error']} (expected one of {r['expected_one_of']})")
    rep.parts["spec_mutants_killed"] = out
    return out


def main(argv) -> int:
    ctx = Ctx("SPECMUT", "quick", 0)
    bad = 0
    try:
        for name in (argv or list(MUTANTS)):
            r = run_mutant(ctx, name)
            print(f"{name:40s} {'KILLED by ' + str(r['killed_by']) if r['killed'] else 'SURVIVED (' + str(r['killed_by']) + ', ' + str(r['error']) + ')'}")
            bad += not r["killed"]
    finally:
        ctx.cleanup()
    return 1 if bad else 0


if __name__ == "__main__":
    sys.exit(main(sys.argv[1:]))
