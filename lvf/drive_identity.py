"""On-policy identities end to end (C08 / C04): the REAL collector of PPO / A2C / REINFORCE fills a rollout buffer with a policy whose
law depends on everything the collector has to record - the observation, the policy's carried state and the action mask - and
the REAL loss functions and the REAL `train` are then evaluated on that buffer with the unchanged policy.

  "on data collected by the current policy every ratio is 1 and the approximate KL is 0"   (PPO)
  "the policy term is -E[log pi(a|s) A]" with log pi = the log-probability recorded when acting (A2C, REINFORCE)

The static-loss cases of drive_losses hand-build their buffers; a collector that records the wrong policy state, or a loss that
re-evaluates the samples without the recorded mask, is invisible there and shows here."""
from __future__ import annotations

from typing import ClassVar

import equinox as eqx
import jax
import jax.numpy as jnp
import jax.random as jr
import numpy as np

from lerax.algorithm import A2C, PPO, REINFORCE
from lerax.distribution import Categorical
from lerax.env import AbstractEnv, AbstractEnvState
from lerax.policy import AbstractActorCriticPolicy, AbstractPolicyState
from lerax.space import Box, Discrete

from .drive_onpolicy import Recorder

NS, NA = 5, 3


class _CS(AbstractEnvState):
    s: jax.Array
    t: jax.Array


class MaskedChain(AbstractEnv):
    """Deterministic chain 0..4 (terminal at 4, truncated after 6 steps); action a moves by a-1 (clipped); in state s the action
    s % 3 is forbidden when `masked`."""
    name: ClassVar[str] = "MaskedChain"
    action_space: Discrete
    observation_space: Box
    masked: bool = eqx.field(static=True)

    def __init__(self, masked: bool):
        self.action_space = Discrete(NA)
        self.observation_space = Box(0.0, float(NS), shape=())
        self.masked = masked

    def initial(self, *, key):
        return _CS(jr.randint(key, (), 0, 3), jnp.asarray(0, dtype=jnp.int32))

    def action_mask(self, state, *, key):
        if not self.masked:
            return None
        return jnp.arange(NA) != (state.s % NA)

    def transition(self, state, action, *, key):
        return _CS(jnp.clip(state.s + action - 1 + (action == 2), 0, NS - 1), state.t + 1)

    def observation(self, state, *, key):
        return state.s.astype(jnp.float32) + state.t.astype(jnp.float32) / 16.0      # position, and the clock as a fraction

    def reward(self, state, action, next_state, *, key):
        return (next_state.s - state.s).astype(jnp.float32) - 0.25 * (action == 1)

    def terminal(self, state, *, key):
        return state.s >= NS - 1

    def truncate(self, state):
        return state.t >= 6

    def state_info(self, state):
        return {}

    def transition_info(self, state, action, next_state):
        return {}

    def default_renderer(self):
        raise NotImplementedError

    def render(self, state, renderer):
        raise NotImplementedError


class _PS(AbstractPolicyState):
    n: jax.Array


class StatefulMaskedPolicy(AbstractActorCriticPolicy):
    """Categorical law with logits W[obs] + (n % 3) * U[obs] (n = calls since the policy's reset), masked by the given mask."""
    name: ClassVar[str] = "StatefulMaskedPolicy"
    action_space: Discrete
    observation_space: Box
    W: jax.Array
    U: jax.Array
    V: jax.Array
    stateful: bool = eqx.field(static=True)

    def __init__(self, env, key, stateful: bool):
        self.action_space, self.observation_space = env.action_space, env.observation_space
        k1, k2, k3 = jr.split(key, 3)
        self.W = jr.normal(k1, (NS, NA))
        self.U = jr.normal(k2, (NS, NA))
        self.V = jr.normal(k3, (NS,))
        self.stateful = stateful

    def reset(self, *, key):
        return _PS(jnp.asarray(0, dtype=jnp.int32))

    def _law(self, state, observation, action_mask):
        o = jnp.clip(jnp.round(observation).astype(jnp.int32), 0, NS - 1)
        logits = self.W[o] + ((state.n % 3).astype(jnp.float32) * self.U[o] if self.stateful else 0.0)
        d = Categorical(logits=logits)
        return (d.mask(action_mask) if action_mask is not None else d), o

    def __call__(self, state, observation, *, key=None, action_mask=None):
        d, _ = self._law(state, observation, action_mask)
        return _PS(state.n + 1), (d.mode() if key is None else d.sample(key))

    def action_and_value(self, state, observation, *, key, action_mask=None):
        d, o = self._law(state, observation, action_mask)
        a, lp = d.sample_and_log_prob(key)
        return _PS(state.n + 1), a, self._value(state, o), lp

    def _value(self, state, o):
        return self.V[o] + (0.5 * (state.n % 3).astype(jnp.float32) if self.stateful else 0.0)

    def evaluate_action(self, state, observation, action, *, action_mask=None):
        d, o = self._law(state, observation, action_mask)
        return _PS(state.n + 1), self._value(state, o), d.log_prob(action), d.entropy()

    def value(self, state, observation):
        o = jnp.clip(jnp.round(observation).astype(jnp.int32), 0, NS - 1)
        return state, self._value(state, o)


def _keeping(cls):
    def train(self, policy, opt_state, buffer, *, key):
        p, o, log = cls.train(self, policy, opt_state, buffer, key=key)
        return p, o, {**log, "buffer": buffer}
    return train


class IdPPO(PPO):
    train = _keeping(PPO)


class IdA2C(A2C):
    train = _keeping(A2C)


class IdREINFORCE(REINFORCE):
    train = _keeping(REINFORCE)


_ALGOS: dict = {}


def _algo(name: str, N: int, T: int):
    k = (name, N, T)
    if k not in _ALGOS:
        _ALGOS[k] = {"PPO": lambda: IdPPO(num_envs=N, num_steps=T, num_epochs=1, num_batches=1, normalize_advantages=False),
                     "A2C": lambda: IdA2C(num_envs=N, num_steps=T, normalize_advantages=False),
                     "REINFORCE": lambda: IdREINFORCE(num_envs=N, num_steps=T, normalize_advantages=False)}[name]()
    return _ALGOS[k]


@eqx.filter_jit
def _reset(algo, env, policy, key, cb):
    return algo.reset(env, policy, key=key, callback=cb)


@eqx.filter_jit
def _iteration(algo, state, key, cb):
    return algo.iteration(state, key=key, callback=cb)


def _close(a, b, tol=2e-5) -> bool:
    a, b = float(a), float(b)
    return bool(np.isfinite(a) and np.isfinite(b) and abs(a - b) <= tol * (1.0 + abs(b)))


def identity_case(algo_name: str, N: int, T: int, masked: bool, stateful: bool, seed: int) -> dict:
    """One real iteration (collection + the real train on the whole rollout as one batch); atoms about the first iteration's own
    statistics and about the static loss on the collected buffer."""
    env = MaskedChain(masked)
    k0, k1, k2 = jr.split(jr.key(seed), 3)
    policy = StatefulMaskedPolicy(env, k0, stateful)
    algo = _algo(algo_name, N, T)
    cb = Recorder()
    state = _reset(algo, env, policy, k1, cb)
    state = _iteration(algo, state, k2, cb)
    log = state.callback_state.log          # kept as jax arrays: flatten_axes leaves numpy leaves alone
    buf = log["buffer"]
    flat = buf.flatten_axes()
    adv = np.asarray(flat.advantages, dtype=np.float64)
    stored_lp = np.asarray(flat.log_probs, dtype=np.float64)
    atoms = {}
    if masked:
        acts = np.asarray(flat.actions).astype(int)
        if flat.action_masks is None:            # total: a rollout that lost its masks fails the clause, it does not raise
            atoms["RecordedMaskForbidsSomethingAndWasHonoured"] = False
        else:
            m = np.asarray(flat.action_masks).astype(bool)
            atoms["RecordedMaskForbidsSomethingAndWasHonoured"] = bool(m.shape == (len(acts), NA) and (~m).any() and m[np.arange(len(acts)), acts].all())
    if stateful:
        atoms["RolloutSpansSeveralPolicyStates"] = bool(len(set(np.asarray(flat.states.n).astype(int).tolist())) >= 2)
    # the stored reward of every row, recomputed from the row itself (the chain is deterministic and its observation carries the
    # clock): the environment's reward, plus gamma * V(successor) on rows ended by truncation only - V as the policy values the
    # successor observation with the state it carries there (one call after the row's own recorded state)
    obs = np.asarray(flat.observations, dtype=np.float64)
    s = np.floor(obs + 1e-6).astype(int)                  # the clock adds at most 6/16 to the position
    t = np.round((obs - s) * 16).astype(int)
    a = np.asarray(flat.actions).astype(int)
    s2 = np.clip(s + a - 1 + (a == 2), 0, NS - 1)
    r_env = (s2 - s).astype(np.float64) - 0.25 * (a == 1)
    term, trunc = s2 >= NS - 1, (t + 1) >= 6
    n_after = np.asarray(flat.states.n).astype(int) + 1
    Vtab = np.asarray(policy.V, dtype=np.float64)
    v_succ = Vtab[s2] + (0.5 * (n_after % 3) if stateful else 0.0)
    gamma = float(algo.gamma)
    want = r_env + np.where(trunc & ~term, gamma * v_succ, 0.0)
    got = np.asarray(flat.rewards, dtype=np.float64)
    atoms["StoredRewardIsEnvRewardPlusDiscountedSuccessorValueOnTruncationOnly"] = bool(np.allclose(got, want, atol=1e-4))
    atoms["DoneIsTerminalOrTruncated"] = bool(np.array_equal(np.asarray(flat.dones).astype(bool), term | trunc))
    boots = int(np.sum(trunc & ~term))
    if algo_name == "PPO":
        _, st = PPO.ppo_loss(policy, flat, False, 0.2, False, 0.5, 0.0)
        atoms["OnPolicyApproxKLIsZero"] = bool(abs(float(st.approx_kl)) <= 1e-5)
        atoms["OnPolicyPolicyTermIsMinusMeanAdvantage"] = _close(st.policy_loss, -adv.mean())
        atoms["FirstTrainingBatchReportsZeroApproxKL"] = bool(abs(float(log["approx_kl"])) <= 1e-5)
        atoms["FirstTrainingBatchPolicyTermIsMinusMeanAdvantage"] = _close(log["policy_loss"], -adv.mean())
    elif algo_name == "A2C":
        _, st = A2C.a2c_loss(policy, flat, False, 0.5, 0.0)
        atoms["PolicyTermIsMinusMeanRecordedLogProbTimesAdvantage"] = _close(st.policy_loss, -(stored_lp * adv).mean())
        atoms["TrainingReportsThatPolicyTerm"] = _close(log["policy_loss"], -(stored_lp * adv).mean())
    else:
        _, st = REINFORCE.reinforce_loss(policy, flat, False, 0.5)
        atoms["PolicyTermIsMinusMeanRecordedLogProbTimesAdvantage"] = _close(st.policy_loss, -(stored_lp * adv).mean())
        atoms["TrainingReportsThatPolicyTerm"] = _close(log["policy_loss"], -(stored_lp * adv).mean())
    return dict(ev="identity", kind=f"{algo_name}:N{N}:T{T}:{'masked' if masked else 'unmasked'}:{'stateful' if stateful else 'stateless'}",
                atoms=atoms, approx_kl=float(log.get("approx_kl", 0.0)), truncation_only_rows=boots)


# ------------------------------------------------------------------------------------------------ configured learners
def _same_tree(a, b, grads, tol=1e-5) -> bool:
    """leaf-wise equality of two parameter trees, on the components whose gradient is not numerically zero (Adam's first step is
    lr * g / (|g| + eps): where g is rounding noise around 0 the step is decided by that noise and differs between two compilations)"""
    la, lb = jax.tree.leaves(eqx.filter(a, eqx.is_inexact_array)), jax.tree.leaves(eqx.filter(b, eqx.is_inexact_array))
    lg = jax.tree.leaves(eqx.filter(grads, eqx.is_inexact_array))
    if not (len(la) == len(lb) == len(lg)):
        return False
    seen = 0
    for x, y, g in zip(la, lb, lg):
        x, y, g = np.asarray(x), np.asarray(y), np.asarray(g)
        if x.shape != y.shape or x.shape != g.shape:
            return False
        sel = np.abs(g) > 1e-5
        seen += int(sel.sum())
        if not np.allclose(x[sel], y[sel], atol=tol, rtol=1e-5):
            return False
    return seen > 0


_ROUTED: dict = {}


def routing_case(algo_name: str, normalize: bool, clipv: bool, seed: int) -> dict:
    """The loss a CONFIGURED learner minimises: PPO / A2C / REINFORCE objects constructed with distinct non-default coefficients
    (clip 0.3, value 0.7, entropy 0.03, max_grad_norm 0.4) run their real `train` on a really collected rollout with a policy that
    has moved since collection (ratios differ from 1); what they report and the policy they return must be the static loss - whose
    formula TLC judges case by case - evaluated with exactly these settings, pushed through the learner's own optimiser."""
    N, T = 2, 8
    env = MaskedChain(True)
    k0, k1, k2, k3 = jr.split(jr.key(seed), 4)
    policy = StatefulMaskedPolicy(env, k0, True)
    cb = Recorder()
    collector = _algo("A2C" if algo_name != "PPO" else "PPO", N, T)
    state = _iteration(collector, _reset(collector, env, policy, k1, cb), k2, cb)
    buf = state.callback_state.log["buffer"]
    flat = buf.flatten_axes()
    moved = eqx.tree_at(lambda p: (p.W, p.V), policy, (policy.W + 0.3 * jr.normal(k3, policy.W.shape), policy.V + 0.2))
    CLIP, CV, CE, MAXN = 0.3, 0.7, 0.03, 0.4
    key = (algo_name, normalize, clipv)
    if key not in _ROUTED:
        if algo_name == "PPO":
            _ROUTED[key] = PPO(num_envs=N, num_steps=T, num_epochs=1, num_batches=1, clip_coefficient=CLIP, clip_value_loss=clipv,
                               normalize_advantages=normalize, value_loss_coefficient=CV, entropy_loss_coefficient=CE, max_grad_norm=MAXN,
                               learning_rate=1e-2)
        elif algo_name == "A2C":
            _ROUTED[key] = A2C(num_envs=N, num_steps=T, normalize_advantages=normalize, value_loss_coefficient=CV,
                               entropy_loss_coefficient=CE, max_grad_norm=MAXN, learning_rate=1e-2)
        else:
            _ROUTED[key] = REINFORCE(num_envs=N, num_steps=T, normalize_advantages=normalize, value_loss_coefficient=CV, max_grad_norm=MAXN,
                                     learning_rate=1e-2)
    algo = _ROUTED[key]
    params = eqx.filter(moved, eqx.is_inexact_array)
    opt_state = algo.optimizer.init(params)
    new_policy, _, log = eqx.filter_jit(lambda a, p, o, b, k: a.train(p, o, b, key=k))(algo, moved, opt_state, buf, jr.key(seed + 1))
    if algo_name == "PPO":
        (loss, st), grads = PPO.ppo_loss_grad(moved, flat, normalize, CLIP, clipv, CV, CE)
        names = ("policy_loss", "value_loss", "entropy_loss", "approx_kl")
    elif algo_name == "A2C":
        (loss, st), grads = A2C.a2c_loss_grad(moved, flat, normalize, CV, CE)
        names = ("policy_loss", "value_loss", "entropy_loss")
    else:
        (loss, st), grads = REINFORCE.reinforce_loss_grad(moved, flat, normalize, CV)
        names = ("policy_loss", "value_loss")
    upd, _ = algo.optimizer.update(grads, opt_state, params)
    expect = eqx.apply_updates(moved, upd)
    ratio_spread = float(np.max(np.abs(np.exp(np.asarray(jax.vmap(moved.evaluate_action)(flat.states, flat.observations, flat.actions,
                                                                                           action_mask=flat.action_masks)[2])
                                              - np.asarray(flat.log_probs)) - 1.0)))
    atoms = {"ReportedLossIsTheObjectiveWithTheConfiguredCoefficients": _close(log["loss"], loss, 1e-5),
             "ReportedTermsAreTheObjectivesTerms": all(_close(log[n], getattr(st, n), 1e-5) for n in names),
             "ReturnedPolicyIsTheConfiguredOptimisersStepOnThatObjective": _same_tree(new_policy, expect, grads),
             "PolicyHasMovedSinceCollection": bool(ratio_spread > 0.05)}
    return dict(ev="identity", kind=f"configured:{algo_name}:{'norm' if normalize else 'raw'}:{'clipv' if clipv else 'noclipv'}", atoms=atoms,
                approx_kl=float(log.get("approx_kl", 0.0)))


def dqn_routing_case(gamma: float, seed: int) -> dict:
    """A configured DQN (gamma, batch size, learning rate non-default) runs its real dqn_train on a hand-filled replay buffer with a
    distinct target network; reported loss and returned network = static dqn_loss (TLC-judged formula) on the batch the same key
    samples, with this gamma, through the learner's own optimiser."""
    from lerax.algorithm import DQN
    from lerax.buffer import ReplayBuffer
    from lerax.policy import MLPQPolicy
    from .drive_laws import SpaceEnv
    env = SpaceEnv(Discrete(3))
    k0, k1, k2, k3 = jr.split(jr.key(seed), 4)
    online = MLPQPolicy(env=env, width_size=8, depth=1, key=k0)
    target = MLPQPolicy(env=env, width_size=8, depth=1, key=k1)
    B = 6
    buf = ReplayBuffer(B, env.observation_space, env.action_space, None)
    rng = np.random.default_rng(seed)
    for i in range(B):
        o, o2 = rng.uniform(-1, 1, 3).astype(np.float32), rng.uniform(-1, 1, 3).astype(np.float32)
        done = bool(i % 3 == 0)
        buf = buf.add(jnp.asarray(o), jnp.asarray(o2), jnp.asarray(int(rng.integers(0, 3))), float(rng.integers(-1, 3)), done,
                      bool(done and i % 2 == 0), None, None)
    key = ("DQN", gamma)
    if key not in _ROUTED:
        _ROUTED[key] = DQN(buffer_size=B, learning_starts=0, num_envs=1, num_steps=1, batch_size=4, gamma=gamma, learning_rate=1e-2,
                           target_update_interval=3)
    algo = _ROUTED[key]
    params = eqx.filter(online, eqx.is_inexact_array)
    opt_state = algo.optimizer.init(params)
    new_policy, _, log = algo.dqn_train(online, opt_state, buf, target, key=k3)
    batch = buf.sample(4, key=k3)
    loss, grads = DQN.dqn_loss_grad(online, batch, target, gamma)
    upd, _ = algo.optimizer.update(grads, opt_state, params)
    expect = eqx.apply_updates(online, upd)
    other = DQN.dqn_loss(online, batch, target, 0.99 if gamma < 0.75 else 0.4)
    atoms = {"ReportedLossIsTheObjectiveWithTheConfiguredDiscount": _close(log["loss"], loss, 1e-5),
             "ReturnedNetworkIsTheConfiguredOptimisersStepOnThatObjective": _same_tree(new_policy, expect, grads),
             "DiscountMattersOnThisBatch": bool(abs(float(other) - float(loss)) > 1e-3)}
    return dict(ev="identity", kind=f"configured:DQN:gamma={gamma}", atoms=atoms, approx_kl=0.0)


# ------------------------------------------------------------------------------------------------ what iteration() carries
def _float_leaves(t):
    return [np.asarray(x) for x in jax.tree.leaves(eqx.filter(t, eqx.is_inexact_array))]


def _int_leaves(t):
    return [np.asarray(x) for x in jax.tree.leaves(eqx.filter(t, eqx.is_array)) if np.issubdtype(np.asarray(x).dtype, np.integer)]


def carried_state_case(algo_name: str, seed: int) -> dict:
    """Two real iterations of an on-policy learner: the optimiser state that training returns is the one the next iteration starts
    from ("updates are applied through the configured optimiser": Adam's moments and step count belong to it), and the policy the
    iteration returns is the one training returned."""
    N, T = 2, 8
    env = MaskedChain(False)
    k0, k1, k2, k3 = jr.split(jr.key(seed), 4)
    policy = StatefulMaskedPolicy(env, k0, True)
    algo = _algo(algo_name, N, T)
    cb = Recorder()
    s0 = _reset(algo, env, policy, k1, cb)
    s1 = _iteration(algo, s0, k2, cb)
    s2 = _iteration(algo, s1, k3, cb)
    buf1 = s1.callback_state.log["buffer"]
    _, opt_expect, _ = eqx.filter_jit(lambda a, p, o, b, k: a.train(p, o, b, key=k))(algo, s0.policy, s0.opt_state, buf1, jr.key(0))
    close = lambda A, B: len(A) == len(B) and all(a.shape == b.shape and np.allclose(a, b, rtol=1e-3, atol=1e-6) for a, b in zip(A, B))
    c0, c1, c2 = _int_leaves(s0.opt_state), _int_leaves(s1.opt_state), _int_leaves(s2.opt_state)
    moved = any(float(np.max(np.abs(x))) > 0 for x in _float_leaves(s1.opt_state))
    atoms = {"OptimiserStateAfterAnIterationIsTheOneTrainingReturned": close(_float_leaves(s1.opt_state), _float_leaves(opt_expect)) and moved,
             "OptimiserStepCountAdvancesWithEveryIteration": bool(c0 and all(int(b.max()) == int(a.max()) + 1 for a, b in zip(c0, c1))
                                                                  and all(int(b.max()) == int(a.max()) + 1 for a, b in zip(c1, c2))),
             "PolicyChangesWithEveryIteration": bool(not close(_float_leaves(s0.policy), _float_leaves(s1.policy))
                                                     and not close(_float_leaves(s1.policy), _float_leaves(s2.policy)))}
    return dict(ev="identity", kind=f"carried:{algo_name}", atoms=atoms, approx_kl=0.0)


def target_dependence_case(kind: str, seed: int) -> dict:
    """The update a real iteration() performs bootstraps from the TARGET network(s) of the algorithm state: with the same key (same
    collected data, same batch) but a different target in the state, the updated online network must differ - and with the target
    set equal to what it was, it must not."""
    from lerax.algorithm import DQN, SAC
    from lerax.policy import MLPQPolicy, MLPSACPolicy
    from .drive_schedule import _algo as sched_algo, box_env, disc_env
    k0, k1, k2, k3 = jr.split(jr.key(seed), 4)
    noise = lambda tree, k: jax.tree.map(lambda x: x + 0.5 * jr.normal(k, x.shape, x.dtype) if eqx.is_inexact_array(x) else x, tree)
    if kind == "DQN":
        from lerax.env.classic_control import CartPole
        env = CartPole()            # no episode ends within the 8 collected steps: every sampled row bootstraps
        policy = MLPQPolicy(env=env, width_size=8, depth=1, key=k0)
        algo = sched_algo("DQN", buffer_size=64, learning_starts=6, num_envs=1, num_steps=2, batch_size=6, target_update_interval=50,
                          learning_rate=1e-2, gamma=0.9)
        cb = algo.consolidate_callbacks(None)
        s0 = _reset(algo, env, policy, k1, cb)
        sT = eqx.tree_at(lambda s: s.target_policy, s0, noise(s0.target_policy, k3))
        online = lambda s: (s.policy, s.opt_state)      # Adam's first step is lr * sign(g): the moments in the optimiser state carry g itself
    else:
        env = box_env()
        policy = MLPSACPolicy(env, feature_size=8, width_size=8, depth=1, key=k0)
        algo = sched_algo("SAC", buffer_size=64, learning_starts=6, num_envs=1, num_steps=1, batch_size=6, tau=0.25, policy_frequency=1,
                          autotune=False, q_width_size=8, q_depth=1, policy_lr=1e-2, q_lr=1e-2, gamma=0.9)
        cb = algo.consolidate_callbacks(None)
        s0 = _reset(algo, env, policy, k1, cb)
        sT = eqx.tree_at(lambda s: (s.qf1_target, s.qf2_target), s0, (noise(s0.qf1_target, k3), noise(s0.qf2_target, jr.fold_in(k3, 1))))
        online = lambda s: (s.qf1, s.qf2, s.q_opt_state)
    a, a2, b = _iteration(algo, s0, k2, cb), _iteration(algo, s0, k2, cb), _iteration(algo, sT, k2, cb)
    # equal entries (among them the infinite bounds of an observation space stored in the policy) count as distance 0
    diff = lambda x, y: max(float(np.max(np.where(p == q, 0.0, np.abs(np.where(np.isfinite(p), p, 0.0) - np.where(np.isfinite(q), q, 0.0)))))
                            for p, q in zip(_float_leaves(online(x)), _float_leaves(online(y))))
    atoms = {"SameStateAndKeyGiveTheSameUpdate": bool(diff(a, a2) == 0.0),
             "TrainingInsideIterationBootstrapsFromTheTargetNetworkOfTheState": bool(diff(a, b) > 1e-6)}
    return dict(ev="identity", kind=f"target_dependence:{kind}", atoms=atoms, approx_kl=0.0)


# ------------------------------------------------------------------------------------------------ evaluation helper: independent episodes
class Lottery(AbstractEnv):
    """One-step episodes whose return names the start state: s ~ uniform{0, 1, 2}, reward 64**s, then terminal.  The mean over E <= 63
    episodes decodes into how many episodes started in each state."""
    name: ClassVar[str] = "Lottery"
    action_space: Discrete
    observation_space: Box

    def __init__(self):
        self.action_space = Discrete(NA)
        self.observation_space = Box(0.0, float(NS), shape=())

    def initial(self, *, key):
        return _CS(jr.randint(key, (), 0, 3), jnp.asarray(0, dtype=jnp.int32))

    def action_mask(self, state, *, key):
        return None

    def transition(self, state, action, *, key):
        return _CS(state.s, state.t + 1)

    def observation(self, state, *, key):
        return state.s.astype(jnp.float32)

    def reward(self, state, action, next_state, *, key):
        return jnp.asarray(64.0) ** state.s.astype(jnp.float32)

    def terminal(self, state, *, key):
        return state.t >= 1

    def truncate(self, state):
        return jnp.asarray(False)

    def state_info(self, state):
        return {}

    def transition_info(self, state, action, next_state):
        return {}

    def default_renderer(self):
        raise NotImplementedError

    def render(self, state, renderer):
        raise NotImplementedError


def independent_episodes_case(E: int, cap, deterministic: bool, seed: int) -> dict:
    """average_reward over E one-step lottery episodes: E * mean = c0 + 64 c1 + 4096 c2 decodes the start states of the E episodes;
    they must be E draws (c0 + c1 + c2 = E) and not E copies of one draw (3**(1-E) under independence)."""
    from lerax.benchmark import average_reward
    env = Lottery()
    policy = StatefulMaskedPolicy(env, jr.key(3), False)
    f = eqx.filter_jit(lambda e, p, k: average_reward(e, p, num_episodes=E, max_steps=cap, deterministic=deterministic, key=k))
    tot = int(round(float(f(env, policy, jr.key(seed))) * E))
    c2, r = divmod(tot, 4096)
    c1, c0 = divmod(r, 64)
    atoms = {"ReturnIsTheMeanOverTheRequestedNumberOfEpisodes": bool(c0 + c1 + c2 == E),
             "EpisodesAreIndependentDrawsNotCopiesOfOne": bool(max(c0, c1, c2) < E)}
    return {"atoms": atoms, "meta": {"episodes": E, "max_steps": cap, "deterministic": deterministic, "starts_decoded": [c0, c1, c2]}}
