"""Unbounded inductive checks with Apalache for the integer-only fragments of the specification (spec/apalache/*_ind.tla).

TLC decides the bounded instances; these runs discharge `Init0 => IndInv` (length 0) and `IndInv /\\ Next => IndInv'` (length 1,
started from an arbitrary state satisfying IndInv) plus action invariants, for EVERY value of the parameters (cycle length K,
time limit N, update interval K; for the replay ring: every number of insertions at capacities 1..8).  Each proof has a mutant (a realistic mistake in the action) for which the induction step
must fail: a vacuity guard.  Run with the checks of the listed properties; about 3 s per run."""
from __future__ import annotations

import shutil
import subprocess
from pathlib import Path

from . import tlc
from .core import Ctx, Machinery

DIR = tlc.SPEC / "apalache"

# module: (properties, [(init, inv, length)], (old, new, inv expected to fail from IndInit at length 1))
PROOFS = {
    "Gait_ind": (["C20"], [("Init0", "IndInv", 0), ("IndInit", "IndInv", 1), ("IndInit", "AdvancesByIncrement", 1)],
                 ("Advance(p) == ((p + m + Half) % K) - Half", "Advance(p) == (p + m) % K", "IndInv")),
    "TimeLimit_ind": (["C13", "C01"], [("Init0", "IndInv", 0), ("IndInit", "IndInv", 1), ("IndInit", "TruncExact", 1),
                                       ("IndInit", "RestartWhenDone", 1)],
                      ("tr == itr \\/ c1 >= N", "tr == itr \\/ c1 > N", "IndInv")),
    "Ring_ind": (["C06"], [("Init0", "IndInv", 0), ("IndInit", "IndInv", 1), ("IndInit", "Recent", 0)],
                 ("![pos % C] = pos]", "![(pos + 1) % C] = pos]", "IndInv")),
    "Target_ind": (["C10"], [("Init0", "IndInv", 0), ("IndInit", "IndInv", 1), ("IndInit", "UnchangedInBetween", 1)],
                   ("tgt' = IF (iter + 1) % K = 0 THEN iter + 1 ELSE tgt", "tgt' = IF iter % K = 0 THEN iter + 1 ELSE tgt", "IndInv")),
}


def check(path: Path, init: str, inv: str, length: int, out: Path, timeout: int = 600) -> str:
    """'NoError' | 'Error' (invariant violated) | raises Machinery"""
    exe = shutil.which("apalache-mc")
    if exe is None:
        raise Machinery("apalache-mc not on PATH")
    cinit = ["--cinit=CInit"] if "\nCInit ==" in path.read_text() else []
    p = subprocess.run([exe, "check", *cinit, f"--init={init}", f"--inv={inv}", f"--length={length}", f"--out-dir={out}", path.name],
                       cwd=str(path.parent), capture_output=True, text=True, timeout=timeout)
    txt = p.stdout + p.stderr
    if "The outcome is: NoError" in txt:
        return "NoError"
    if "The outcome is: Error" in txt and "invariant" in txt.lower():
        return "Error"
    raise Machinery(f"apalache-mc {path.name} --init={init} --inv={inv}: unexpected output: {txt[-800:]}")


def run_for(ctx: Ctx, rep, pid: str):
    done = []
    for mod, (pids, runs, (old, new, minv)) in PROOFS.items():
        if pid not in pids:
            continue
        src = DIR / f"{mod}.tla"
        out = ctx.work / f"apalache_{mod}"
        for init, inv, length in runs:
            r = check(src, init, inv, length, out)
            if r != "NoError":
                raise Machinery(f"Apalache: {mod} {init} => {inv} (length {length}) does not hold: the inductive invariant of the "
                                f"specification is broken (specification problem, not a verdict about the implementation)")
            done.append({"module": mod, "init": init, "inv": inv, "length": length, "outcome": r})
        text = src.read_text()
        if old not in text:
            raise Machinery(f"Apalache mutant of {mod}: pattern not found")
        mdir = ctx.work / f"apalache_mut_{mod}"
        mdir.mkdir(exist_ok=True)
        (mdir / f"{mod}.tla").write_text(text.replace(old, new, 1))
        r = check(mdir / f"{mod}.tla", "IndInit", minv, 1, mdir / "out")
        if r != "Error":
            raise Machinery(f"Apalache mutant of {mod} ({new!r}) still passes the induction step: the proof has no teeth")
        done.append({"module": mod, "mutant": new, "inv": minv, "outcome": "Error (as required)"})
    if done:
        rep.parts["apalache_inductive"] = done
        rep.notes.append("unbounded inductive invariants discharged by Apalache 0.58 for every value of the parameters: "
                         + ", ".join(sorted({d["module"] for d in done})))
