"""Shared plumbing: run context, violations, evidence files, known findings."""
from __future__ import annotations

import hashlib
import json
import os
import random
import time
from dataclasses import dataclass, field
from pathlib import Path

from . import tlc

VERIF = Path(__file__).resolve().parent.parent
EVIDENCE = VERIF / "evidence"
REPLAYS = VERIF / "replays"
FINDINGS = VERIF / "KNOWN_FINDINGS.json"


class Machinery(Exception):
    """Harness / specification / tooling problem: exit 2, never a VIOLATION."""


ALL_VIOLATIONS: list = []      # every violation constructed in this process, in order (see check.py: a vacuity guard or
                               # self-test that cannot run because the tree is broken must not hide what was already found)


@dataclass
class Violation:
    key: str          # identifies the failing input class / call site (matched against KNOWN_FINDINGS)
    what: str         # one line: what fails
    driver: str       # name of the driver able to re-run the case
    case: dict        # self-contained payload for the replay

    def __post_init__(self):
        ALL_VIOLATIONS.append(self)


@dataclass
class Report:
    violations: list = field(default_factory=list)
    states: int = 0               # distinct states over all TLC runs of this check
    transitions: int = 0          # states generated (= transitions examined) over all TLC runs
    traces: int = 0               # traces / behaviours validated against the implementation
    evaluations: int = 0          # implementation executions (calls, cases, steps)
    samples: list = field(default_factory=list)
    exhaustive: bool = False
    parts: dict = field(default_factory=dict)      # per sub-check numbers
    assumptions: list = field(default_factory=list)
    undecided: list = field(default_factory=list)
    notes: list = field(default_factory=list)

    def add_tlc(self, name: str, res: tlc.TLCResult, **extra):
        self.states += res.distinct
        self.transitions += res.generated
        d = {"distinct_states": res.distinct, "states_generated": res.generated, "wall_s": round(res.wall, 2)}
        if res.coverage:
            d["action_coverage"] = {k: v[1] for k, v in sorted(res.coverage.items())}
        d.update(extra)
        self.parts[name] = d

    def merge(self, other: "Report"):
        self.violations += other.violations
        self.states += other.states
        self.transitions += other.transitions
        self.traces += other.traces
        self.evaluations += other.evaluations
        for s in other.samples:
            if len(self.samples) < 6:
                self.samples.append(s)
        self.parts.update(other.parts)
        self.assumptions += [a for a in other.assumptions if a not in self.assumptions]
        self.undecided += [a for a in other.undecided if a not in self.undecided]
        self.notes += other.notes


class Ctx:
    def __init__(self, pid: str, tier: str, seed: int):
        self.pid = pid
        self.tier = tier
        self.seed = seed
        self.rng = random.Random(seed * 1000003 + sum(map(ord, pid)))
        self.work = tlc.work_dir(pid + "_" + str(os.getpid()))
        self.t0 = time.time()

    @property
    def thorough(self) -> bool:
        return self.tier == "thorough"

    def pick(self, quick, thorough):
        return thorough if self.thorough else quick

    def cleanup(self):
        tlc.clean_work(self.work.name)


def relieve_jit(limit: int = 24000) -> bool:
    """XLA's CPU backend maps memory for every compiled executable; a long run that creates thousands of distinct small
    programs (eager op-by-op code, fresh policy objects) reaches vm.max_map_count (65530) and LLVM aborts with
    "Cannot allocate memory".  Drop the compilation caches when the process has many mappings."""
    try:
        with open("/proc/self/maps") as f:
            n = sum(1 for _ in f)
    except OSError:
        return False
    if n < limit:
        return False
    import gc
    import jax
    jax.clear_caches()
    gc.collect()
    return True


def load_findings() -> list:
    if not FINDINGS.exists():
        return []
    return json.loads(FINDINGS.read_text()).get("findings", [])


def known_keys(pid: str) -> dict:
    return {f["key"]: f for f in load_findings() if f["property"] == pid and f.get("status") == "known"}


def write_replay(pid: str, v: Violation) -> Path:
    payload = {"property": pid, "key": v.key, "what": v.what, "driver": v.driver, "case": v.case}
    txt = json.dumps(payload, sort_keys=True, indent=1, default=_jsonable)
    h = hashlib.sha1(txt.encode()).hexdigest()[:16]
    d = (Path(os.environ["LVF_SCRATCH"]) if os.environ.get("LVF_SCRATCH") else REPLAYS) / pid
    d.mkdir(parents=True, exist_ok=True)
    p = d / f"{h}.json"
    p.write_text(txt)
    return p


def _jsonable(o):
    try:
        import numpy as np
        if isinstance(o, np.generic):
            return o.item()
        if isinstance(o, np.ndarray):
            return o.tolist()
    except Exception:
        pass
    if isinstance(o, (set, frozenset)):
        return sorted(o, key=repr)
    if isinstance(o, tuple):
        return list(o)
    return repr(o)


def write_evidence(ctx: Ctx, rep: Report, level: str, n_unlisted: int, n_known: int):
    EVIDENCE.mkdir(exist_ok=True)
    cov = {
        "states": max(rep.states, 0),
        "transitions": max(rep.transitions, 0),
        "traces_validated_against_impl": rep.traces,
        "samples": rep.samples[:6] if rep.samples else ["(no sample recorded)"],
        "implementation_executions": rep.evaluations,
        "rule": "states / transitions: distinct states and states generated, summed over the TLC runs listed in 'parts' (exhaustive "
                "model checking of the specification modules plus the trace-validation runs); traces_validated_against_impl: "
                "behaviours recorded from the real lerax code and validated by TLC against the specification (C2S), or cases / "
                "TLC-generated behaviours executed on the real code and judged against the specification (S2C); "
                "implementation_executions: calls of real lerax entry points (steps, rows, cases) made by this run",
        "exhaustive": rep.exhaustive,
        "parts": rep.parts,
        "undecided_clauses": rep.undecided,
        "known_findings_reported": n_known,
        "notes": rep.notes,
    }
    ev = {
        "property_id": ctx.pid,
        "tier": ctx.tier,
        "seed": ctx.seed,
        "level": level,
        "coverage": cov,
        "assumptions": rep.assumptions,
        "wall_s": round(time.time() - ctx.t0, 2),
        "violations": n_unlisted,
    }
    (EVIDENCE / f"{ctx.pid}.json").write_text(json.dumps(ev, indent=1, default=_jsonable))
