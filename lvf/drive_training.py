"""Flight recorder for the callback protocol of learn(): a harness callback whose every method appends an event through
an *ordered* jax.debug.callback (num_envs = 1, so program order is total)."""
from __future__ import annotations

import equinox as eqx
import jax
import jax.numpy as jnp
import jax.random as jr
import numpy as np

from lerax.callback import AbstractCallback, AbstractCallbackState, AbstractCallbackStepState

EVENTS: list = []


def _emit(name, k):
    EVENTS.append({"e": name, "k": int(np.asarray(k))})


class CountStep(AbstractCallbackStepState):
    n: jax.Array


class CountState(AbstractCallbackState):
    n: jax.Array


class FlightRecorder(AbstractCallback):
    def _log(self, name, k):
        jax.debug.callback(lambda kk, name=name: _emit(name, kk), k, ordered=True)

    def reset(self, ctx, *, key):
        self._log("reset", jnp.asarray(0))
        return CountState(jnp.asarray(0, dtype=jnp.int32))

    def step_reset(self, ctx, *, key):
        self._log("step_reset", jnp.asarray(0))
        return CountStep(jnp.asarray(0, dtype=jnp.int32))

    def on_step(self, ctx, *, key):
        n = ctx.state.n + 1
        self._log("on_step", n)
        return CountStep(n)

    def on_iteration(self, ctx, *, key):
        self._log("on_iteration", ctx.iteration_count)
        return CountState(ctx.state.n + 1)

    def on_training_start(self, ctx, *, key):
        self._log("on_training_start", ctx.iteration_count)
        return ctx.state

    def on_training_end(self, ctx, *, key):
        self._log("on_training_end", ctx.iteration_count)
        return ctx.state

    def continue_training(self, ctx, *, key):
        return jnp.array(True)


def record_learn(kind: str, S: int, ls: int, total: int, seed: int, in_list: bool = False) -> dict:
    from lerax.algorithm import A2C, DQN, PPO
    from lerax.policy import MLPActorCriticPolicy, MLPQPolicy
    from .drive_schedule import disc_env
    env = disc_env()
    k0, k1 = jr.split(jr.key(seed))
    if kind == "DQN":
        algo = DQN(buffer_size=64, learning_starts=ls, num_envs=1, num_steps=S, batch_size=1, target_update_interval=2)
        policy = MLPQPolicy(env=env, width_size=8, depth=1, key=k0)
    elif kind == "A2C":
        algo = A2C(num_envs=1, num_steps=S)
        policy = MLPActorCriticPolicy(env=env, key=k0)
    else:
        algo = PPO(num_envs=1, num_steps=S, num_epochs=1, num_batches=1)
        policy = MLPActorCriticPolicy(env=env, key=k0)
    jax.effects_barrier()
    del EVENTS[:]
    cb = FlightRecorder()
    algo.learn(env, policy, total, key=k1, callback=[cb] if in_list else cb)
    jax.effects_barrier()
    evs = list(EVENTS)
    cfg = dict(offpolicy=(kind == "DQN"), ls=ls if kind == "DQN" else 0, S=S, total=total)
    return {"cfg": cfg, "events": evs, "meta": {"alg": kind, "in_list": in_list}}
