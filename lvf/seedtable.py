"""Regenerates /verif/seeded/README.md from the meta.json files of the kept seeded changes."""
from __future__ import annotations

import json
from pathlib import Path

ROOT = Path("/verif/seeded")


def main():
    rows = []
    for d in sorted(p for p in ROOT.iterdir() if p.is_dir() and (p / "meta.json").exists()):
        m = json.loads((d / "meta.json").read_text())
        checks = "; ".join(f"{pid}: {c['verdict']}" + (f" ({c['tier']})" if c.get("tier") != "quick" else "") for pid, c in m.get("checks", {}).items())
        keys = sorted({k.replace("key=", "") for c in m.get("checks", {}).values() for k in c.get("keys", [])})[:2]
        rows.append((m["id"], m["breaks_property"], m.get("needs_to_manifest", ""), checks, "<br>".join(keys), m.get("origin", "sub-agent")))
    out = ["# Seeded changes", "",
           "Each directory holds `patch.diff` (a change to /repo that breaks one property while the library still imports and the",
           "relevant existing tests still pass), the demonstration `demo.py` written by the independent sub-agent that produced the change",
           "(exit 0 on the original tree, non-zero with the change), `notes.md` and `meta.json` (what was run to confirm it, and the verdict",
           "of each check run against the changed tree with `python -m lvf.seedcheck`).  None of these changes is committed to /repo.", "",
           "| id | breaks | needs, to manifest | checks run against it | reported keys | origin |", "|---|---|---|---|---|---|"]
    for r in rows:
        out.append("| " + " | ".join(str(x).replace("|", "/") for x in r) + " |")
    out += ["", f"{len(rows)} kept changes; DETECTED = the check exits 1 with a VIOLATION line on the changed tree (and exits 0 on the unchanged tree)."]
    (ROOT / "README.md").write_text("\n".join(out) + "\n")
    print(f"{len(rows)} seeds")


if __name__ == "__main__":
    main()
