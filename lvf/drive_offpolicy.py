"""Driver: real off-policy collection (reset + iteration of DQN / SAC; training stubbed out through the
public train hooks) on TableEnv with a tabular behaviour policy -> one OffPolicy trace per environment stream."""
from __future__ import annotations

import equinox as eqx
import jax
import jax.numpy as jnp
import jax.random as jr
import numpy as np

from lerax.algorithm import DQN, SAC

from . import tables as tb
from .drive_onpolicy import Recorder, act_code, clear_records, logging_callback, proj_stats, record_summary, SD
from lerax.callback import CallbackList
from .drive_env import rew_int


class RecDQN(DQN):
    def dqn_train(self, policy, opt_state, buffer, target_policy, *, key):
        return policy, opt_state, {}


class RecSAC(SAC):
    def sac_train(self, policy, opt_state, buffer, qf1, qf2, qf1_target, qf2_target, q_opt_state, log_alpha,
                  alpha_opt_state, target_entropy, iteration_count, *, key):
        return policy, opt_state, qf1, qf2, q_opt_state, log_alpha, alpha_opt_state, {}


_ALGOS: dict = {}


def make_algo(name, bufsize, lstarts, N, nsteps):
    k = (name, bufsize, lstarts, N, nsteps)
    if k not in _ALGOS:
        if name == "DQN":
            _ALGOS[k] = RecDQN(buffer_size=bufsize, learning_starts=lstarts, num_envs=N, num_steps=nsteps, batch_size=1,
                               target_update_interval=2)
        else:
            _ALGOS[k] = RecSAC(buffer_size=bufsize, learning_starts=lstarts, num_envs=N, num_steps=nsteps, batch_size=1,
                               q_width_size=4, q_depth=1)
    return _ALGOS[k]


@eqx.filter_jit
def _reset(algo, env, policy, key, cb):
    return algo.reset(env, policy, key=key, callback=cb)


@eqx.filter_jit
def _iteration(algo, state, key, cb):
    return algo.iteration(state, key=key, callback=cb)


ZST0 = dict(step=0, ret=0, len=0, latch=False, avgR=0, avgL=0)


def _rows(cfg, buf, frm: int, to: int, cap: int, asp, osp) -> list:
    out = []
    for n in range(frm, to):
        i = n % cap
        out.append(dict(ev="row", obs=tb.obs_code(osp["kind"], buf.observations[i]),
                        nobs=tb.obs_code(osp["kind"], buf.next_observations[i]),
                        act=act_code(asp["kind"], buf.actions[i]), rew=rew_int(buf.rewards[i]),
                        done=bool(buf.dones[i]), timeout=bool(buf.timeouts[i]), pstate=int(buf.states.n[i]),
                        k=0, pos=0, s=0, cnt=[], ps=0, stats=ZST0))
    return out


def record_offpolicy(cache: tb.EnvCache, cfg: dict, algo_name: str, iters: int, seed: int) -> list:
    """cfg: MDP + stack + policy tables + bufsize, lstarts, nsteps, N.  One trace per environment stream."""
    env = cache.get(cfg)
    depth = len(cfg["stack"])
    asp, osp = tb.outer_spaces(cfg)
    N = cfg["N"]
    policy = tb.TableACPolicy(env, cfg)
    algo = make_algo(algo_name, cfg["bufsize"], cfg["lstarts"], N, cfg["nsteps"])
    logcb, backend = logging_callback(cfg.get("an", 2))
    cb = CallbackList([Recorder(), logcb])
    k0, k1 = jr.split(jr.key(seed))
    clear_records(backend)
    state = _reset(algo, env, policy, k0, cb)
    dones = [0] * N
    ZST = dict(step=0, ret=0, len=0, latch=False, avgR=0, avgL=0)
    streams = [[] for _ in range(N)]
    last_pos = [0] * N
    caps = [0] * N

    def snap(k, state):
        ss = jax.device_get(state.step_state)
        for e in range(N):
            sel = (lambda x: x[e]) if N > 1 else (lambda x: x)
            s1 = jax.tree.map(sel, ss)
            cap = int(s1.buffer.rewards.shape[0])
            caps[e] = cap
            pos = int(s1.buffer.position)
            frm = max(last_pos[e], pos - cap)
            streams[e] += _rows(cfg, s1.buffer, frm, pos, cap, asp, osp)
            last_pos[e] = pos
            st = tb.proj_env_state(s1.env_state, depth)
            jax.effects_barrier()
            dones[e] = sum(1 for x in streams[e] if x["ev"] == "row" and x["done"])
            streams[e].append(dict(ev="snap", k=k, pos=pos, s=st["s"], cnt=st["cnt"], ps=int(s1.policy_state.n),
                                   obs=0, nobs=0, act=0, rew=0, done=False, timeout=False, pstate=0,
                                   stats=proj_stats(s1.callback_state.states[1]), dones=dones[e],
                                   record=record_summary(backend, N)))

    snap(0, state)
    for it, k in enumerate(jr.split(k1, iters)):
        state = _iteration(algo, state, k, cb)
        snap(it + 1, state)
    return [{"cfg": cfg, "cap": caps[e], "events": streams[e], "meta": {"algo": algo_name, "env": e, "N": N}}
            for e in range(N)]


def warmup_count_case(cache: tb.EnvCache, cfg: dict, algo_name: str, seed: int) -> dict:
    """Warm-ups LONGER than the whole buffer (learning_starts > buffer_size): the rows written first are overwritten before they
    can be read back, so these configurations cannot be validated row by row; what remains observable is judged as atoms -
    the per-environment insertion counter after reset() and after one iteration, and the number of steps the callbacks were told."""
    env = cache.get(cfg)
    N = cfg["N"]
    policy = tb.TableACPolicy(env, cfg)
    algo = make_algo(algo_name, cfg["bufsize"], cfg["lstarts"], N, cfg["nsteps"])
    logcb, backend = logging_callback(cfg.get("an", 2))
    cb = CallbackList([Recorder(), logcb])
    k0, k1 = jr.split(jr.key(seed))
    clear_records(backend)
    state = _reset(algo, env, policy, k0, cb)
    pos0 = [int(p) for p in np.asarray(state.step_state.buffer.position).reshape(-1)]
    told0 = [int(p) for p in np.asarray(state.step_state.callback_state.states[0].n).reshape(-1)]
    state = _iteration(algo, state, k1, cb)
    pos1 = [int(p) for p in np.asarray(state.step_state.buffer.position).reshape(-1)]
    ls, S = cfg["lstarts"], cfg["nsteps"]
    atoms = {"WarmUpStoresExactlyLearningStartsTransitionsPerEnvironment": len(pos0) == N and all(p == ls for p in pos0),
             "CallbacksAreToldEveryWarmUpStep": len(told0) == N and all(t == ls for t in told0),
             "EveryIterationAddsNumStepsPerEnvironment": len(pos1) == N and all(p == ls + S for p in pos1)}
    return {"atoms": atoms, "meta": {"algo": algo_name, "N": N, "buffer_size": cfg["bufsize"], "learning_starts": ls, "num_steps": S,
                                     "position_after_reset": pos0, "steps_told_to_callbacks": told0, "position_after_one_iteration": pos1}}
