"""Behaviour-preserving changes must not raise an alarm:
    python -m lvf.benigncheck --src DIR --id NAME [--props C01,C02,...] [--jobs 3]
DIR holds patch.diff (+ notes.md) written by an independent sub-agent asked for a realistic refactor that keeps every public
behaviour; the patch is applied in a scratch worktree of /repo and the quick checks are run against it.  Every check must exit 0
(no VIOLATION, no machinery failure).  Result: /verif/seeded/benign/NAME/{patch.diff,notes.md,meta.json}."""
from __future__ import annotations

import argparse
import json
import os
import re
import shutil
import subprocess
import sys
import tempfile
from concurrent.futures import ThreadPoolExecutor
from pathlib import Path

ALL = [f"C{i:02d}" for i in range(1, 21)]


def main() -> int:
    ap = argparse.ArgumentParser()
    ap.add_argument("--src", required=True)
    ap.add_argument("--id", required=True)
    ap.add_argument("--props", default=",".join(ALL))
    ap.add_argument("--jobs", type=int, default=3)
    a = ap.parse_args()
    src = Path(a.src)
    Path("/tmp/wt").mkdir(exist_ok=True)
    wt = Path(tempfile.mkdtemp(prefix="benign_", dir="/tmp/wt"))
    wt.rmdir()
    subprocess.run(["git", "-C", "/repo", "worktree", "add", "-q", "--detach", str(wt), "HEAD"], check=True)
    meta = {"id": a.id, "kind": "behaviour-preserving refactor (must not be reported)", "checks": {}}
    try:
        subprocess.run(["git", "-C", str(wt), "apply", str(src / "patch.diff")], check=True)
        stat = subprocess.run(["git", "-C", str(wt), "diff", "--shortstat"], capture_output=True, text=True).stdout.strip()
        meta["diffstat"] = stat
        meta["head"] = subprocess.run(["git", "-C", "/repo", "rev-parse", "--short", "HEAD"], capture_output=True, text=True).stdout.strip()

        def one(pid):
            scratch = wt / f"_lvf_scratch_{pid}"
            scratch.mkdir(exist_ok=True)
            env = dict(os.environ, PYTHONPATH=f"{wt}/src:/verif", LVF_SCRATCH=str(scratch))
            p = subprocess.run(["/venv/bin/python", "-m", "lvf.check", pid, "--tier", "quick"], cwd="/verif", env=env, capture_output=True, text=True)
            out = re.sub(r"\x1b\[[0-9;?]*[A-Za-z]", "", p.stdout)
            keys = sorted({ln.strip().split(": ")[0][:220] for ln in out.splitlines() if ln.strip().startswith("key=")})
            verdict = {0: "QUIET", 1: "ALARM", 2: "MACHINERY"}.get(p.returncode, f"rc={p.returncode}")
            tail = (p.stdout + p.stderr)[-1500:] if p.returncode == 2 else ""
            return pid, {"verdict": verdict, "keys": keys[:6], "tail": tail}
        with ThreadPoolExecutor(max_workers=a.jobs) as ex:
            for pid, r in ex.map(one, a.props.split(",")):
                meta["checks"][pid] = r
                print(f"{pid}: {r['verdict']} {r['keys'][:2]}")
                if r["tail"]:
                    print(r["tail"][-600:])
    finally:
        subprocess.run(["git", "-C", "/repo", "worktree", "remove", "--force", str(wt)], check=False)
        shutil.rmtree(wt, ignore_errors=True)
    dst = Path("/verif/seeded/benign") / a.id
    dst.mkdir(parents=True, exist_ok=True)
    for f in ("patch.diff", "notes.md"):
        if (src / f).exists():
            shutil.copy(src / f, dst / f)
    meta["all_quiet"] = all(r["verdict"] == "QUIET" for r in meta["checks"].values())
    (dst / "meta.json").write_text(json.dumps(meta, indent=1))
    print("ALL QUIET" if meta["all_quiet"] else "NOT QUIET")
    return 0 if meta["all_quiet"] else 1


if __name__ == "__main__":
    sys.exit(main())
