"""Shared by C05 / C12: model checking of OffPolicy.tla and recording + validation of real off-policy collection."""
from __future__ import annotations

import copy
import json
import random

from . import tables as tb
from . import tlc, tracecheck
from .core import Ctx, Machinery, Report, Violation

TRACE_SPEC = "trace/Trace_OffPolicy.tla"


def mc_cfgs(ctx: Ctx) -> list:
    rng = random.Random(777)
    cfgs = []
    for i in range(ctx.pick(16, 80)):
        ak = "box" if i % 2 == 0 else "disc"
        base = tb.gen_mdp(rng, ak, "disc", nS=rng.randint(2, 3))
        stack = tb.gen_stack(rng, base, rng.randint(0, 2), force_tl=0.6)
        c = tb.gen_ac_policy(rng, tb.with_stack(base, stack), K=2)
        N = rng.choice([1, 2])
        c.update(bufsize=rng.choice([2, 3, 4]) * N, lstarts=rng.choice([0, 1, 3]), nsteps=rng.choice([1, 2]), N=N, an=2)
        cfgs.append(c)
    return cfgs


def run_mc(ctx: Ctx, rep: Report):
    cfgs = mc_cfgs(ctx)
    f = ctx.work / "mc_offpolicy_cfgs.json"
    f.write_text(json.dumps(cfgs))
    res = tlc.run("mc/MC_OffPolicy.tla", workdir=ctx.work, workers=ctx.pick(8, 16), env={"CFG_FILE": str(f)},
                  coverage=True, timeout=2400)
    tlc.require_ok(res, "MC_OffPolicy (the specification's own properties)")
    rep.add_tlc("MC_OffPolicy", res, configurations=len(cfgs))
    if res.distinct < 20 * len(cfgs):
        raise Machinery(f"MC_OffPolicy explored only {res.distinct} distinct states: vacuity guard")
    for act in ("DoWarm", "DoRun", "DoEndWarm", "DoEndIter"):
        if res.coverage.get(act, (0, 0))[1] == 0:
            raise Machinery(f"MC_OffPolicy: action {act} never taken ({sorted(res.coverage)})")


def gen_templates(ctx: Ctx, n: int) -> list:
    rng = ctx.rng
    out = []
    for i in range(n):
        ak = ["disc", "box", "box"][i % 3]
        ok = ["disc", "box"][i % 2]
        base = tb.gen_mdp(rng, ak, ok)
        stack = tb.gen_stack(rng, base, rng.choice([0, 1, 1, 2, 2, 3]), force_tl=0.5)
        N = [1, 2, 3][i % 3]
        share = rng.choice([4, 6, 8])
        out.append({"cfg": tb.with_stack(base, stack), "algo": "DQN" if ak == "disc" else "SAC", "N": N,
                    "bufsize": share * N + (rng.choice([0, 1]) if N > 1 else 0),
                    "lstarts": rng.choice([0, 1, 3, share]), "nsteps": rng.choice([1, 2, 3])})
    return out


def record(ctx: Ctx, templates: list, per_template: int, iters: int = 4, cache=None):
    from . import drive_offpolicy as dof
    cache = cache or tb.EnvCache()
    traces, cases = [], []
    for t in templates:
        for j in range(per_template):
            cfg = t["cfg"] if j == 0 else tb.vary(ctx.rng, t["cfg"])
            cfg = tb.gen_ac_policy(ctx.rng, cfg)
            cfg.update(bufsize=t["bufsize"], lstarts=t["lstarts"], nsteps=t["nsteps"], N=t["N"], an=ctx.rng.choice([1, 2, 3, 4]))
            seed = ctx.rng.randrange(2 ** 31)
            if j % 8 == 0:
                from .core import relieve_jit
                relieve_jit()
            for tr in dof.record_offpolicy(cache, cfg, t["algo"], iters, seed):
                cut_after_8_dones(tr)
                traces.append(tr)
                cases.append({"cfg": cfg, "algo": t["algo"], "iters": iters, "seed": seed, "env": tr["meta"]["env"]})
    return traces, cases


def cut_after_8_dones(tr):
    """the EMA of the logging statistics is exact (SD = 4^8) for at most 8 episode ends (fewer with large rewards,
    tables.exact_dones_limit): drop later events"""
    n, keep = 0, []
    last_snap = 0
    big = False
    for i, e in enumerate(tr["events"]):
        if e["ev"] == "row" and abs(e["rew"]) >= tb.BIG_REWARD and e["rew"] != 7777777:
            big = True
        if e["ev"] == "row" and e["done"]:
            n += 1
        if n > tb.exact_dones_limit(big):
            break
        keep.append(e)
        if e["ev"] == "snap":
            last_snap = len(keep)
    tr["events"] = keep[:last_snap] if last_snap else keep


def violations_from(pid, v, traces, cases, only=None):
    out = []
    for i, (l, clauses) in sorted(v.rejected.items()):
        if only is not None:
            clauses = [c for c in clauses if only(c)]
            if not clauses:
                continue
        tr = traces[i]
        ev = tr["events"][l - 1] if 1 <= l <= len(tr["events"]) else None
        stack = [w["kind"] for w in tr["cfg"]["stack"]]
        out.append(Violation(f"{pid}:offpolicy:" + "+".join(clauses),
                             f"{tr['meta']['algo']} collection (N={tr['meta']['N']}, env {tr['meta']['env']}, buffer_size="
                             f"{tr['cfg']['bufsize']}, learning_starts={tr['cfg']['lstarts']}, num_steps={tr['cfg']['nsteps']}) "
                             f"event {l}: failing clauses {clauses}; stack={stack} event={ev}", "offpolicy", cases[i]))
    return out


def self_test(ctx, traces, verdicts) -> int:
    good = [i for i in sorted(verdicts.accepted) if sum(1 for e in traces[i]["events"] if e["ev"] == "row") >= 3]
    if not good:
        raise Machinery("off-policy self-test: no accepted trace with rows")
    muts = []
    for n, (field, f) in enumerate((("rew", lambda x: x + 1), ("nobs", lambda x: x + 1), ("timeout", lambda x: not x),
                                    ("done", lambda x: not x), ("pos", lambda x: x + 1))):
        t = copy.deepcopy(traces[good[n % len(good)]])
        evs = [e for e in t["events"] if e["ev"] == ("snap" if field == "pos" else "row")]
        e = evs[len(evs) // 2]
        e[field] = f(e[field])
        muts.append(t)
    v = tracecheck.validate(ctx, TRACE_SPEC, muts, "selftest_off")
    if len(v.rejected) != len(muts):
        raise Machinery(f"off-policy binding self-test failed: corrupted traces accepted: {sorted(v.accepted)}")
    return len(muts)


def run_c2s(ctx: Ctx, rep: Report, pid: str, n_templates: int, per_template: int, only=None):
    templates = gen_templates(ctx, n_templates)
    traces, cases = record(ctx, templates, per_template)
    v = tracecheck.validate(ctx, TRACE_SPEC, traces, "offp", procs=ctx.pick(4, 12))
    rep.states += v.distinct
    rep.transitions += v.generated
    rep.traces += len(traces)
    nrows = sum(1 for t in traces for e in t["events"] if e["ev"] == "row")
    rep.evaluations += nrows
    rep.parts["C2S_offpolicy_collector"] = {
        "traces": len(traces), "streams_from_vmapped_collection": sum(1 for t in traces if t["meta"]["N"] > 1),
        "templates": len(templates), "accepted": len(v.accepted), "rejected": len(v.rejected), "rows": nrows,
        "rows_done": sum(1 for t in traces for e in t["events"] if e["ev"] == "row" and e["done"]),
        "rows_timeout": sum(1 for t in traces for e in t["events"] if e["ev"] == "row" and e["timeout"]),
        "tlc_states": v.distinct, "tlc_wall_s": round(v.wall, 1)}
    rep.violations += violations_from(pid, v, traces, cases, only)
    rep.parts["binding_self_test_offpolicy"] = {"corrupted_traces_rejected": self_test(ctx, traces, v)}
    t0 = traces[0]
    rep.samples.append({"kind": "off-policy collection stream (real DQN/SAC reset+iteration on TableEnv)", "meta": t0["meta"],
                        "stack": [w["kind"] for w in t0["cfg"]["stack"]], "events": t0["events"][:4]})
    return traces, cases, v


def replay(ctx: Ctx, pid: str, case: dict, only=None) -> Report:
    from . import drive_offpolicy as dof
    rep = Report()
    trs = dof.record_offpolicy(tb.EnvCache(), case["cfg"], case["algo"], case["iters"], case["seed"])
    trs = [t for t in trs if t["meta"]["env"] == case["env"]]
    for t in trs:
        cut_after_8_dones(t)
    v = tracecheck.validate(ctx, TRACE_SPEC, trs, "replay")
    rep.traces = len(trs)
    rep.violations += violations_from(pid, v, trs, [case] * len(trs), only)
    return rep
