"""TLC runner and output parser."""
from __future__ import annotations

import os
import re
import shutil
import subprocess
import time
from dataclasses import dataclass, field
from pathlib import Path

from . import tlaval

VERIF = Path(__file__).resolve().parent.parent
SPEC = VERIF / "spec"
JAR = "/opt/veriftools/tla/tla2tools.jar"
DEPS = "/opt/veriftools/tla/CommunityModules-deps.jar"


class TLCFailure(Exception):
    """TLC could not be run or crashed (machinery failure, never a property violation)."""


@dataclass
class TLCResult:
    ok: bool
    generated: int = 0
    distinct: int = 0
    violated: str | None = None      # name of violated invariant / property / postcondition
    error: str | None = None         # first "Error:" text when not a clean violation
    out: str = ""
    wall: float = 0.0
    coverage: dict = field(default_factory=dict)   # action name -> (distinct, taken)
    prints: list = field(default_factory=list)     # parsed PrintT tuples

    def printed(self, tag: str) -> list:
        return [p[1:] for p in self.prints if isinstance(p, list) and p and p[0] == tag]


_RE_STATES = re.compile(r"(\d+) states generated, (\d+) distinct states found")
_RE_SIM = re.compile(r"The number of states generated: (\d+)")
_RE_COV = re.compile(r"^<([\w!]+) line \d+, col \d+ to line \d+, col \d+ of module (\w+)(?: \([\d ]+\))?>: (\d+):(\d+)", re.M)
_RE_INV = re.compile(r"Error: Invariant (\S+) is violated")
_RE_ACT = re.compile(r"Error: Action property (\S+) is violated")
_RE_POST = re.compile(r"Error: .*[Pp]ost.?condition (\S+) ")


def work_dir(name: str) -> Path:
    d = VERIF / ".work" / name
    d.mkdir(parents=True, exist_ok=True)
    return d


def clean_work(name: str) -> None:
    shutil.rmtree(VERIF / ".work" / name, ignore_errors=True)


def _parse_prints(out: str) -> list:
    res = []
    for m in re.finditer(r'^<<\s*"', out, re.M):
        try:
            v, _ = tlaval.parse_prefix(out, m.start())
            res.append(v)
        except tlaval.ParseError:
            pass
    return res


def run(module: str | Path, cfg: str | Path | None = None, *, workdir: Path,
        workers: int | str = 1, env: dict | None = None, coverage: bool = False,
        simulate: str | None = None, depth: int | None = None, seed: int | None = None,
        dump_dot: Path | None = None, timeout: int = 1800, dfs: bool = False,
        extra: list[str] | None = None, heap: str = "8g") -> TLCResult:
    """Run TLC on `module` (path relative to /verif/spec or absolute) with config `cfg`."""
    module = Path(module)
    if not module.is_absolute():
        module = SPEC / module
    if cfg is None:
        cfg = module.with_suffix(".cfg")
    cfg = Path(cfg)
    if not cfg.is_absolute():
        cfg = SPEC / cfg
    meta = workdir / ("meta_" + module.stem + "_" + str(os.getpid()) + "_" + str(time.time_ns() % 10**9))
    lib = os.pathsep.join(str(p) for p in [SPEC, SPEC / "mc", SPEC / "trace", SPEC / "mutants", workdir])
    cmd = ["java", "-XX:+UseParallelGC", f"-Xmx{heap}", f"-DTLA-Library={lib}"]
    if dfs:
        cmd.append("-Dtlc2.tool.queue.IStateQueue=StateDeque")
    cmd += ["-cp", f"{JAR}:{DEPS}", "tlc2.TLC", "-workers", str(workers), "-metadir", str(meta),
            "-noGenerateSpecTE", "-config", str(cfg)]
    if coverage:
        cmd += ["-coverage", "1"]
    if simulate is not None:
        cmd += ["-simulate", simulate]
    if depth is not None:
        cmd += ["-depth", str(depth)]
    if seed is not None:
        cmd += ["-seed", str(seed)]
    if dump_dot is not None:
        cmd += ["-dump", "dot,actionlabels", str(dump_dot)]
    if extra:
        cmd += extra
    cmd.append(str(module))
    e = dict(os.environ)
    e.pop("JAVA_TOOL_OPTIONS", None)
    if env:
        e.update({k: str(v) for k, v in env.items()})
    t0 = time.time()
    try:
        p = subprocess.run(cmd, cwd=str(module.parent), env=e, capture_output=True, text=True, timeout=timeout)
    except subprocess.TimeoutExpired as ex:
        shutil.rmtree(meta, ignore_errors=True)
        raise TLCFailure(f"TLC timed out after {timeout}s on {module.name}") from ex
    wall = time.time() - t0
    shutil.rmtree(meta, ignore_errors=True)
    out = p.stdout + ("\n" + p.stderr if p.stderr.strip() else "")
    res = TLCResult(ok=False, out=out, wall=wall)
    m = None
    for m in _RE_STATES.finditer(out):
        pass
    if m:
        res.generated, res.distinct = int(m.group(1)), int(m.group(2))
    else:
        m = _RE_SIM.search(out)
        if m:
            res.generated = res.distinct = int(m.group(1))
    for m in _RE_COV.finditer(out):
        name = m.group(1).split("!")[-1]
        d, t = int(m.group(3)), int(m.group(4))
        od, ot = res.coverage.get(name, (0, 0))
        res.coverage[name] = (od + d, ot + t)
    res.prints = _parse_prints(out)
    if "Error:" not in out and ("Model checking completed. No error has been found" in out
                                or (simulate is not None and p.returncode == 0)):
        res.ok = True
        return res
    for rx in (_RE_INV, _RE_ACT):
        mm = rx.search(out)
        if mm:
            res.violated = mm.group(1)
            return res
    if "Temporal properties were violated" in out:
        res.violated = "temporal"
        return res
    if "postcondition" in out.lower() or "post condition" in out.lower():
        if re.search(r"Error:.*(post.?condition).*(violated|false)", out, re.I | re.S):
            res.violated = "POSTCONDITION"
            return res
    mm = re.search(r"Error: (.*)", out)
    res.error = mm.group(1) if mm else f"TLC exit {p.returncode} without verdict"
    return res


def require_ok(res: TLCResult, what: str) -> TLCResult:
    """Raise TLCFailure unless TLC finished without error (used for specs that must hold by construction)."""
    if not res.ok:
        tail = "\n".join(res.out.splitlines()[-40:])
        raise TLCFailure(f"{what}: violated={res.violated} error={res.error}\n{tail}")
    return res


def sany(module: Path) -> tuple[bool, str]:
    lib = os.pathsep.join(str(p) for p in [SPEC, SPEC / "mc", SPEC / "trace", SPEC / "mutants"])
    p = subprocess.run(["java", f"-DTLA-Library={lib}", "-cp", f"{JAR}:{DEPS}", "tla2sany.SANY", str(module)],
                       cwd=str(module.parent), capture_output=True, text=True)
    ok = p.returncode == 0 and "error" not in p.stdout.lower().replace("semantic errors:\n", "") or \
        ("Semantic processing of module" in p.stdout and "*** Errors" not in p.stdout and "Fatal" not in p.stdout
         and "Parse Error" not in p.stdout and "Could not" not in p.stdout)
    return ok, p.stdout + p.stderr


# ------------------------------------------------------------------------------------------------
# spec -> code: behaviours generated by `tlc -simulate file=...`
# ------------------------------------------------------------------------------------------------
_RE_ACT_HDR = re.compile(r"^\\\* <(\w+)(?:\((.*)\))? line \d+", re.M)


def parse_behaviour(text: str) -> list:
    """One simulation trace file -> [(action name, [args], {var: value})] (first entry: the initial state)."""
    out = []
    blocks = re.split(r"^\\\* <", text, flags=re.M)[1:]
    for b in blocks:
        m = re.match(r"(\w+)(?:\((.*?)\))? line \d+", b)
        name = m.group(1)
        args = tlaval.parse("<<" + m.group(2) + ">>") if m.group(2) else []
        body = b[b.index("==") + 2:]
        body = body.split("\n\n\n")[0]
        state = {}
        parts = re.split(r"^/\\ (\w+) = ", body, flags=re.M)
        for i in range(1, len(parts), 2):
            state[parts[i]] = tlaval.parse(parts[i + 1].strip().rstrip("=").strip())
        out.append((name, args, state))
    return out


def simulate(module: str, cfg: str, *, workdir: Path, num: int, depth: int, seed: int, env: dict | None = None,
             timeout: int = 900) -> list:
    """Run TLC in simulation mode and return the generated behaviours (each a list as in parse_behaviour)."""
    d = workdir / f"sim_{Path(module).stem}_{seed}"
    shutil.rmtree(d, ignore_errors=True)
    d.mkdir(parents=True)
    res = run(module, cfg, workdir=workdir, workers=1, env=env, simulate=f"file={d}/tr,num={num}", depth=depth, seed=seed,
              timeout=timeout)
    if not res.ok:
        raise TLCFailure(f"simulation of {module} failed: {res.violated or res.error}\n{res.out[-1500:]}")
    behs = []
    for f in sorted(d.iterdir()):
        t = f.read_text()
        t = t[:t.rfind("====")] if "====" in t[-200:] else t
        behs.append(parse_behaviour(t))
    shutil.rmtree(d, ignore_errors=True)
    return behs
