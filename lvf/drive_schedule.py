"""Driver for C10: real DQN / SAC iteration histories and learn() runs -> Schedule traces."""
from __future__ import annotations

import random

import equinox as eqx
import jax
import jax.numpy as jnp
import jax.random as jr
import numpy as np

from lerax.algorithm import DQN, PPO, SAC
from lerax.policy import MLPActorCriticPolicy, MLPQPolicy, MLPSACPolicy

from . import tables as tb
from .drive_onpolicy import clear_records, logging_callback


class Interner:
    def __init__(self):
        self.ids = {}

    def __call__(self, tree) -> int:
        h = b"".join(np.asarray(x).tobytes() + str(np.asarray(x).dtype).encode() + str(np.asarray(x).shape).encode()
                     for x in jax.tree.leaves(eqx.filter(tree, eqx.is_array)))
        return self.ids.setdefault(h, len(self.ids) + 1)


_ENVS = {}


def disc_env():
    if "disc" not in _ENVS:
        rng = random.Random(17)
        cfg = tb.with_stack(tb.gen_mdp(rng, "disc", "disc", nS=4), [tb.wrec("TimeLimit", n=4)])
        _ENVS["disc"] = tb.build_env(cfg)
    return _ENVS["disc"]


def box_env():
    if "box" not in _ENVS:
        from lerax.env.classic_control import Pendulum
        _ENVS["box"] = Pendulum()
    return _ENVS["box"]


_ALGO = {}


def _algo(kind, **kw):
    k = (kind, tuple(sorted(kw.items())))
    if k not in _ALGO:
        _ALGO[k] = {"DQN": DQN, "SAC": SAC, "PPO": PPO}[kind](**kw)
    return _ALGO[k]


@eqx.filter_jit
def _reset(algo, env, policy, key, cb):
    return algo.reset(env, policy, key=key, callback=cb)


@eqx.filter_jit
def _iteration(algo, state, key, cb):
    return algo.iteration(state, key=key, callback=cb)


def record_dqn(c: dict, n_iter: int, seed: int) -> dict:
    env = disc_env()
    k0, k1, k2 = jr.split(jr.key(seed), 3)
    policy = MLPQPolicy(env=env, width_size=8, depth=1, key=k0)
    algo = _algo("DQN", buffer_size=64 * c["E"], learning_starts=c["ls"], num_envs=c["E"], num_steps=c["S"], batch_size=1,
                 target_update_interval=c["K"], learning_rate=1e-2)
    cb = algo.consolidate_callbacks(None)
    intern = Interner()
    state = _reset(algo, env, policy, k1, cb)
    init = dict(onl_id=intern(state.policy), tgt_id=intern(state.target_policy), actor_id=0, alpha_id=0)
    evs = []
    for k in jr.split(k2, n_iter):
        state = _iteration(algo, state, k, cb)
        pos = np.asarray(state.step_state.buffer.position).reshape(-1)
        evs.append(dict(ev="iter", iter=int(state.iteration_count), pos=[int(p) for p in pos], onl_id=intern(state.policy),
                        tgt_id=intern(state.target_policy), actor_id=0, alpha_id=0, polyak_ok=True,
                        wo=0, wt=0, res_q=0, total=0, nrec=0, steps=[]))
    cfg = dict(alg="DQN", total=10 ** 6, E=c["E"], S=c["S"], K=c["K"], pf=1, auto=False, tn=4, ls=c["ls"])
    return {"cfg": cfg, "init": init, "events": evs}


def _max_abs_diff(a, b):
    return max(float(np.max(np.abs(np.asarray(x) - np.asarray(y)))) for x, y in
               zip(jax.tree.leaves(eqx.filter(a, eqx.is_inexact_array)), jax.tree.leaves(eqx.filter(b, eqx.is_inexact_array))))


def record_sac(c: dict, n_iter: int, seed: int) -> dict:
    env = box_env()
    k0, k1, k2 = jr.split(jr.key(seed), 3)
    policy = MLPSACPolicy(env, feature_size=8, width_size=8, depth=1, key=k0)
    tau = c["tn"] / 4.0
    algo = _algo("SAC", buffer_size=64 * c["E"], learning_starts=max(c["ls"], 2), num_envs=c["E"], num_steps=c["S"], batch_size=2,
                 tau=tau, policy_frequency=c["pf"], autotune=c["auto"], q_width_size=8, q_depth=1, policy_lr=1e-2, q_lr=1e-2)
    cb = algo.consolidate_callbacks(None)
    intern = Interner()
    state = _reset(algo, env, policy, k1, cb)
    init = dict(onl_id=intern((state.qf1, state.qf2)), tgt_id=intern((state.qf1_target, state.qf2_target)),
                actor_id=intern(state.policy), alpha_id=intern(state.log_alpha))
    evs = []
    for k in jr.split(k2, n_iter):
        old_t = (state.qf1_target, state.qf2_target)
        state = _iteration(algo, state, k, cb)
        new_o, new_t = (state.qf1, state.qf2), (state.qf1_target, state.qf2_target)
        expect = jax.tree.map(lambda o, t: tau * o + (1 - tau) * t, eqx.filter(new_o, eqx.is_inexact_array),
                              eqx.filter(old_t, eqx.is_inexact_array))
        ok = _max_abs_diff(new_t, expect) <= 1e-6
        pos = np.asarray(state.step_state.buffer.position).reshape(-1)
        evs.append(dict(ev="iter", iter=int(state.iteration_count), pos=[int(p) for p in pos], onl_id=intern(new_o),
                        tgt_id=intern(new_t), actor_id=intern(state.policy), alpha_id=intern(state.log_alpha),
                        polyak_ok=bool(ok), wo=0, wt=0, res_q=0, total=0, nrec=0, steps=[]))
    # exact Polyak instance: integer-valued weights through the public per_iteration hook
    for (wo, wt) in ((4, 0), (-8, 12), (3, -5)):
        fill = lambda tree, w: jax.tree.map(lambda x: jnp.full_like(x, float(w)) if eqx.is_inexact_array(x) else x, tree)
        st = eqx.tree_at(lambda s: (s.qf1, s.qf2, s.qf1_target, s.qf2_target), state,
                         (fill(state.qf1, wo), fill(state.qf2, wo), fill(state.qf1_target, wt), fill(state.qf2_target, wt)))
        st2 = algo.per_iteration(st)
        vals = {float(v) for x in jax.tree.leaves(eqx.filter((st2.qf1_target, st2.qf2_target), eqx.is_inexact_array))
                for v in np.asarray(x).reshape(-1)}
        res_q = tb.q4(next(iter(vals))) if len(vals) == 1 else 7777777
        evs.append(dict(ev="polyak", wo=wo, wt=wt, res_q=res_q, iter=0, pos=[], onl_id=0, tgt_id=0, actor_id=0, alpha_id=0,
                        polyak_ok=True, total=0, nrec=0, steps=[]))
    cfg = dict(alg="SAC", total=10 ** 6, E=c["E"], S=c["S"], K=1, pf=c["pf"], auto=c["auto"], tn=c["tn"], ls=max(c["ls"], 2))
    return {"cfg": cfg, "init": init, "events": evs}


def record_learn(kind: str, c: dict, total: int, seed: int) -> dict:
    """learn(total_timesteps) observed through the real LoggingCallback over a recording backend."""
    k0, k1 = jr.split(jr.key(seed))
    logcb, backend = logging_callback(2)
    if kind == "DQN":
        env = disc_env()
        policy = MLPQPolicy(env=env, width_size=8, depth=1, key=k0)
        algo = _algo("DQN", buffer_size=64 * c["E"], learning_starts=c["ls"], num_envs=c["E"], num_steps=c["S"], batch_size=1,
                     target_update_interval=c["K"], learning_rate=1e-2)
        ls = c["ls"]
    else:
        env = disc_env()
        policy = MLPActorCriticPolicy(env=env, key=k0)
        algo = _algo("PPO", num_envs=c["E"], num_steps=c["S"], num_epochs=1, num_batches=1)
        ls = 0
    jax.effects_barrier()
    clear_records(backend)
    algo.learn(env, policy, total, key=k1, callback=logcb)
    jax.effects_barrier()
    steps = [r[2] for r in backend.records if r[0] == "scalars"]
    cfg = dict(alg=kind, total=total, E=c["E"], S=c["S"], K=c.get("K", 1), pf=1, auto=False, tn=4, ls=ls)
    ev = dict(ev="learn", total=total, nrec=len(steps), steps=steps, iter=0, pos=[], onl_id=0, tgt_id=0, actor_id=0, alpha_id=0,
              polyak_ok=True, wo=0, wt=0, res_q=0)
    return {"cfg": cfg, "init": dict(onl_id=0, tgt_id=0, actor_id=0, alpha_id=0), "events": [ev]}
