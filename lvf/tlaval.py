"""Parser for values as TLC prints them (PrintT output, simulation trace files, dot labels).

Supported: integers, strings, TRUE/FALSE, tuples <<..>>, sets {..}, records [a |-> v, ..],
functions (k :> v @@ ..), intervals a..b (expanded to a frozenset).  Records become dicts, tuples lists, sets frozensets
(of hashable conversions), functions dicts.
"""
from __future__ import annotations


class ParseError(Exception):
    pass


def _hashable(v):
    if isinstance(v, list):
        return tuple(_hashable(x) for x in v)
    if isinstance(v, dict):
        return tuple(sorted((k, _hashable(x)) for k, x in v.items()))
    if isinstance(v, (set, frozenset)):
        return frozenset(_hashable(x) for x in v)
    return v


class _P:
    def __init__(self, s: str):
        self.s = s
        self.i = 0

    def ws(self):
        s = self.s
        while self.i < len(s) and s[self.i] in " \t\r\n":
            self.i += 1

    def peek(self, tok: str) -> bool:
        self.ws()
        return self.s.startswith(tok, self.i)

    def eat(self, tok: str):
        self.ws()
        if not self.s.startswith(tok, self.i):
            raise ParseError(f"expected {tok!r} at {self.i}: {self.s[self.i:self.i+40]!r}")
        self.i += len(tok)

    def ident(self) -> str:
        self.ws()
        j = self.i
        s = self.s
        while j < len(s) and (s[j].isalnum() or s[j] == "_"):
            j += 1
        if j == self.i:
            raise ParseError(f"identifier expected at {self.i}: {s[self.i:self.i+40]!r}")
        r = s[self.i:j]
        self.i = j
        return r

    def value(self):
        self.ws()
        s = self.s
        if self.i >= len(s):
            raise ParseError("unexpected end")
        c = s[self.i]
        if s.startswith("<<", self.i):
            self.i += 2
            items = []
            if self.peek(">>"):
                self.eat(">>")
                return items
            while True:
                items.append(self.value())
                if self.peek(","):
                    self.eat(",")
                    continue
                self.eat(">>")
                return items
        if c == "{":
            self.i += 1
            items = []
            if self.peek("}"):
                self.eat("}")
                return frozenset()
            while True:
                items.append(self.value())
                if self.peek(","):
                    self.eat(",")
                    continue
                self.eat("}")
                return frozenset(_hashable(x) for x in items)
        if c == "[":
            self.i += 1
            rec = {}
            if self.peek("]"):
                self.eat("]")
                return rec
            while True:
                k = self.ident()
                self.eat("|->")
                rec[k] = self.value()
                if self.peek(","):
                    self.eat(",")
                    continue
                self.eat("]")
                return rec
        if c == "(":
            self.i += 1
            fn = {}
            while True:
                k = self.value()
                self.eat(":>")
                fn[_hashable(k)] = self.value()
                if self.peek("@@"):
                    self.eat("@@")
                    continue
                self.eat(")")
                return fn
        if c == '"':
            j = self.i + 1
            out = []
            while s[j] != '"':
                if s[j] == "\\":
                    j += 1
                out.append(s[j])
                j += 1
            self.i = j + 1
            return "".join(out)
        if c == "-" or c.isdigit():
            j = self.i + 1
            while j < len(s) and s[j].isdigit():
                j += 1
            n = int(s[self.i:j])
            self.i = j
            if s.startswith("..", self.i):
                self.i += 2
                hi = self.value()
                return frozenset(range(n, hi + 1))
            return n
        w = self.ident()
        if w == "TRUE":
            return True
        if w == "FALSE":
            return False
        return w  # model value


def parse(s: str):
    p = _P(s)
    v = p.value()
    p.ws()
    if p.i != len(p.s):
        raise ParseError(f"trailing input at {p.i}: {p.s[p.i:p.i+40]!r}")
    return v


def parse_prefix(s: str, start: int = 0):
    """Parse one value starting at `start`; return (value, end_index)."""
    p = _P(s)
    p.i = start
    v = p.value()
    return v, p.i


def to_tla(v) -> str:
    """Python value -> TLA+ expression text (ints, bools, str, list->tuple, dict->record, set->set)."""
    if isinstance(v, bool):
        return "TRUE" if v else "FALSE"
    if isinstance(v, int):
        return str(v)
    if isinstance(v, str):
        return '"' + v + '"'
    if isinstance(v, (list, tuple)):
        return "<<" + ", ".join(to_tla(x) for x in v) + ">>"
    if isinstance(v, (set, frozenset)):
        return "{" + ", ".join(to_tla(x) for x in sorted(v, key=repr)) + "}"
    if isinstance(v, dict):
        if not v:
            return "<<>>"
        return "[" + ", ".join(f"{k} |-> {to_tla(x)}" for k, x in v.items()) + "]"
    raise TypeError(f"cannot render {type(v)} as TLA+")
