"""Confirm a seeded change and run the checks against it (never touches /repo's working tree):
    python -m lvf.seedcheck --src /tmp/seed/C06a/_seed --id C06-tile-mask --breaks C06 --props C06,C05 --tests "tests/algorithm/test_dqn.py"
Steps (in a scratch worktree of /repo HEAD): demo passes on the original; patch applies; demo fails with the patch; the named
existing tests pass with the patch; each listed check is run against the patched copy (DETECTED / MISSED).  On success the
change is kept as /verif/seeded/<id>/{patch.diff, demo.py, meta.json}."""
from __future__ import annotations

import argparse
import json
import os
import shutil
import subprocess
import sys
import tempfile
import time
from pathlib import Path


def sh(cmd, **kw):
    return subprocess.run(cmd, capture_output=True, text=True, **kw)


def main() -> int:
    ap = argparse.ArgumentParser()
    ap.add_argument("--src", required=True)
    ap.add_argument("--id", required=True)
    ap.add_argument("--breaks", required=True)
    ap.add_argument("--props", required=True)
    ap.add_argument("--tests", default="")
    ap.add_argument("--needs", default="")
    ap.add_argument("--tier", default="quick")
    ap.add_argument("--skip-tests", action="store_true")
    a = ap.parse_args()
    src = Path(a.src)
    Path("/tmp/wt").mkdir(exist_ok=True)
    wt = Path(tempfile.mkdtemp(prefix="seed_", dir="/tmp/wt"))
    wt.rmdir()
    subprocess.run(["git", "-C", "/repo", "worktree", "add", "-q", "--detach", str(wt), "HEAD"], check=True)
    meta = {"id": a.id, "breaks_property": a.breaks, "needs_to_manifest": a.needs, "ran": [], "head": sh(["git", "-C", "/repo", "rev-parse", "--short", "HEAD"]).stdout.strip()}
    ok = True
    try:
        env = dict(os.environ, PYTHONPATH=f"{wt}/src", JAX_PLATFORMS="cpu")
        demo = src / "demo.py"
        r0 = sh(["/venv/bin/python", str(demo)], env=env, cwd=str(wt))
        meta["ran"].append({"cmd": "demo.py on the original tree", "exit": r0.returncode})
        print(f"demo on original: exit {r0.returncode}")
        ap_ = sh(["git", "-C", str(wt), "apply", str(src / "patch.diff")])
        if ap_.returncode != 0:
            print("patch does not apply:", ap_.stderr[:400])
            return 2
        imp = sh(["/venv/bin/python", "-c", "import lerax, lerax.algorithm, lerax.wrapper, lerax.env.classic_control"], env=env)
        print(f"import with patch: exit {imp.returncode}")
        r1 = sh(["/venv/bin/python", str(demo)], env=env, cwd=str(wt))
        meta["ran"].append({"cmd": "demo.py with the patch", "exit": r1.returncode, "tail": (r1.stdout + r1.stderr)[-300:]})
        print(f"demo with patch: exit {r1.returncode}")
        ok &= r0.returncode == 0 and r1.returncode != 0 and imp.returncode == 0
        if a.tests and not a.skip_tests:
            t0 = time.time()
            rt = sh(["/venv/bin/python", "-m", "pytest", *a.tests.split(), "-q", "-p", "no:cacheprovider", "--timeout=900", "-x"], env=env, cwd=str(wt))
            tail = [ln for ln in rt.stdout.splitlines() if "passed" in ln or "failed" in ln or "error" in ln][-1:]
            meta["ran"].append({"cmd": f"pytest {a.tests} (with the patch)", "exit": rt.returncode, "summary": tail, "wall_s": round(time.time() - t0)})
            print(f"existing tests with patch: exit {rt.returncode} {tail}")
            ok &= rt.returncode == 0
        elif a.tests and a.skip_tests:
            prev = Path("/verif/seeded") / a.id / "meta.json"      # re-check after a strengthening: the test run was recorded before
            if prev.exists():
                meta["ran"] += [r for r in json.loads(prev.read_text()).get("ran", []) if r.get("cmd", "").startswith("pytest")]
        scratch = wt / "_lvf_scratch"
        scratch.mkdir()
        cenv = dict(os.environ, PYTHONPATH=f"{wt}/src:/verif", LVF_SCRATCH=str(scratch))
        meta["checks"] = {}
        for pid in a.props.split(","):
            p = sh(["/venv/bin/python", "-m", "lvf.check", pid, "--tier", a.tier], cwd="/verif", env=cenv)
            out = p.stdout.replace("\r", "\n")
            keys = sorted({ln.strip().split(": ")[0][:200] for ln in out.splitlines() if ln.strip().startswith("key=")})
            verdict = {0: "MISSED", 1: "DETECTED", 2: "ERROR"}.get(p.returncode, f"rc={p.returncode}")
            meta["checks"][pid] = {"verdict": verdict, "tier": a.tier, "keys": [k.split(": ")[0] for k in keys][:6]}
            print(f"check {pid}: {verdict} {[k.split(': ')[0] for k in keys][:3]}")
            if p.returncode == 2:
                print((p.stdout + p.stderr)[-1200:])
        meta["confirmed"] = bool(ok)
        if ok:
            dst = Path("/verif/seeded") / a.id
            dst.mkdir(parents=True, exist_ok=True)
            shutil.copy(src / "patch.diff", dst / "patch.diff")
            shutil.copy(demo, dst / "demo.py")
            if (src / "notes.md").exists():
                shutil.copy(src / "notes.md", dst / "notes.md")
            (dst / "meta.json").write_text(json.dumps(meta, indent=1))
            print(f"kept as {dst}")
        else:
            print("NOT confirmed; not kept")
    finally:
        subprocess.run(["git", "-C", "/repo", "worktree", "remove", "--force", str(wt)], check=False)
        shutil.rmtree(wt, ignore_errors=True)
    return 0 if ok else 1


if __name__ == "__main__":
    sys.exit(main())
