"""Driver for C09: real flatten_axes / batch_indices / gather / batches / RolloutBuffer.sample and PPO.train."""
from __future__ import annotations

import math
from typing import ClassVar

import equinox as eqx
import jax
import jax.numpy as jnp
import jax.random as jr
import numpy as np
import optax

from lerax.algorithm import PPO
from lerax.buffer import RolloutBuffer
from lerax.policy import AbstractActorCriticPolicy
from lerax.space import Box, Dict, Discrete, Tuple

from . import tables as tb


def _obs_space(kind):
    if kind == "dict":
        return Dict({"a": Box(-1.0, 1.0, shape=(2,)), "b": Discrete(5)})
    if kind == "tuple":
        return Tuple((Box(-1.0, 1.0, shape=(1,)), Discrete(3)))
    return Box(-1.0, 1.0, shape=(3,))


def tagged_buffer(E: int, S: int, kind: str, masks: bool):
    """RolloutBuffer of shape (E, S) (or (S,) when E == 1) in which every leaf element of sample (e, s) holds its tag."""
    tags = np.arange(1, E * S + 1, dtype=np.float32).reshape(E, S)          # tag = (e-1)*S + s, env-major numbering
    if E == 1:
        tags = tags[0]

    def like(example):
        ex = np.asarray(example)
        return jnp.asarray(np.broadcast_to(tags.reshape(tags.shape + (1,) * ex.ndim), tags.shape + ex.shape).astype(ex.dtype))

    osp = _obs_space(kind)
    obs = jax.tree.map(like, osp.canonical())
    act = like(np.zeros((2,), np.float32)) if kind != "flat" else like(np.int32(0))
    t = jnp.asarray(tags)
    return RolloutBuffer(observations=obs, actions=act, rewards=t, dones=(t > 0), log_probs=t, values=t,
                         states=tb.TPState(jnp.asarray(tags.astype(np.int32))),
                         action_masks=(like(np.zeros((3,), np.int32)) if masks else None), returns=t, advantages=t)


ALL_FIELDS = ("observations", "actions", "rewards", "log_probs", "values", "returns", "advantages", "states", "action_masks")


def row_codes(buf, i=None, fields=ALL_FIELDS) -> list:
    """tags found in every leaf element of every field of sample i of a flat buffer (dones excluded: boolean)"""
    out = []
    b = buf if i is None else jax.tree.map(lambda x: x[i], buf)
    for fld in fields:
        for x in jax.tree.leaves(getattr(b, fld)):
            out += [int(round(float(v))) for v in np.asarray(x).reshape(-1)]
    return out


def rows_of(buf, n) -> list:
    host = jax.device_get(buf)
    return [row_codes(host, i) for i in range(n)]


def record_api(E, S, B, kind, masks, seeds) -> dict:
    buf = tagged_buffer(E, S, kind, masks)
    N = E * S
    flat = buf.flatten_axes()
    evs = [dict(ev="flatten", rows=rows_of(flat, flat.rewards.shape[0]))]
    # the rollout as the learners receive it: after the real advantage estimation (per environment stream), which must hand on every
    # other field of every sample - the mask and the policy state included
    est = (lambda b: b.compute_returns_and_advantages(jnp.asarray(0.0), 0.5, 0.5))
    buf2 = jax.vmap(est)(buf) if E > 1 else est(buf)
    other = tuple(f for f in ALL_FIELDS if f not in ("returns", "advantages"))
    host2 = jax.device_get(buf2.flatten_axes())
    width = len(row_codes(jax.device_get(flat), 0, other))
    evs.append(dict(ev="estimate", width=width, rows=[row_codes(host2, i, other) for i in range(N)]))
    for seed in seeds:
        k = jr.key(seed)
        idx = np.asarray(flat.batch_indices(B, key=k))
        evs.append(dict(ev="indices", idx=[[int(x) for x in r] for r in idx]))
        if len(idx):
            r = idx[seed % len(idx)]
            g = flat.gather(jnp.asarray(r))
            evs.append(dict(ev="gather", idx=[int(x) for x in r], rows=rows_of(g, len(r))))
        bt = buf.batches(B, key=k)
        nb = bt.rewards.shape[0]
        rows = []
        host = jax.device_get(bt)
        for j in range(nb):
            bj = jax.tree.map(lambda x: x[j], host)
            rows += [row_codes(bj, i) for i in range(B)]
        evs.append(dict(ev="batches", rows=rows))
        n = 1 + seed % N
        sm = buf.sample(n, key=k)
        evs.append(dict(ev="sample", n=n, rows=rows_of(sm, n)))
    # sequential (key=None) indices as well
    idx = np.asarray(flat.batch_indices(B))
    evs.append(dict(ev="indices", idx=[[int(x) for x in r] for r in idx]))
    return {"cfg": dict(E=E, S=S, B=B, epochs=1), "events": evs}


class TagValuePolicy(AbstractActorCriticPolicy):
    """One trainable value entry per sample tag; constant log-prob 0 and entropy 0 (ratio 1, no policy gradient)."""
    name: ClassVar[str] = "TagValuePolicy"
    action_space: Discrete
    observation_space: Discrete
    V: jax.Array

    def __init__(self, N):
        self.action_space = Discrete(2)
        self.observation_space = Discrete(N + 1)
        self.V = jnp.zeros((N + 1,), dtype=jnp.float32)

    def reset(self, *, key):
        return tb.TPState(jnp.asarray(0, dtype=jnp.int32))

    def __call__(self, state, observation, *, key=None, action_mask=None):
        return state, jnp.asarray(0)

    def action_and_value(self, state, observation, *, key, action_mask=None):
        return state, jnp.asarray(0), self.V[observation], jnp.asarray(0.0)

    def evaluate_action(self, state, observation, action, *, action_mask=None):
        return state, self.V[observation], jnp.asarray(0.0), jnp.asarray(0.0)

    def value(self, state, observation):
        return state, self.V[observation]


_PPO = {}


def record_train(E, S, nb, epochs, seed) -> dict:
    """Visit counts per sample decoded from the real PPO.train (optimizer replaced by plain SGD(1), c_v = 1)."""
    N = E * S
    k = (E, S, nb, epochs)
    if k not in _PPO:
        a = PPO(num_envs=E, num_steps=S, num_epochs=epochs, num_batches=nb, value_loss_coefficient=1.0,
                entropy_loss_coefficient=0.0, normalize_advantages=False, clip_value_loss=False)
        _PPO[k] = eqx.tree_at(lambda x: x.optimizer, a, optax.sgd(1.0), is_leaf=lambda x: isinstance(x, optax.GradientTransformation))
    algo = _PPO[k]
    B = algo.batch_size
    tags = np.arange(1, N + 1, dtype=np.int32).reshape(E, S)
    if E == 1:
        tags = tags[0]
    t = jnp.asarray(tags)
    z = jnp.zeros(tags.shape, dtype=jnp.float32)
    buf = RolloutBuffer(observations=t, actions=jnp.zeros(tags.shape, dtype=jnp.int32), rewards=z, dones=(t < 0), log_probs=z,
                        values=z, states=tb.TPState(jnp.zeros(tags.shape, dtype=jnp.int32)), action_masks=None,
                        returns=z - 1.0, advantages=z)           # value 0, return -1: (v - ret) = 1 before training
    policy = TagValuePolicy(N)
    opt_state = algo.optimizer.init(eqx.filter(policy, eqx.is_inexact_array))
    f = eqx.filter_jit(lambda algo, policy, opt_state, buf, key: algo.train(policy, opt_state, buf, key=key))
    new_policy, _, _ = f(algo, policy, opt_state, buf, jr.key(seed))
    v = np.asarray(new_policy.V)[1:]
    ks = []
    for x in v:
        d = float(x) + 1.0                       # (v' - ret) = (1 - 1/B)^k
        if B == 1:
            kk = 0 if abs(d - 1.0) < 1e-6 else (1 if abs(d) < 1e-6 else 99)
        else:
            kk = math.log(max(d, 1e-30)) / math.log(1.0 - 1.0 / B)
            kk = int(round(kk)) if abs(kk - round(kk)) < 1e-3 else 99
        ks.append(kk)
    return {"cfg": dict(E=E, S=S, B=B, epochs=epochs), "events": [dict(ev="train", k=ks)]}
