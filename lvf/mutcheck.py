"""Run checks against a *mutated copy* of the repository without touching /repo:
    python -m lvf.mutcheck --patch FILE | --revert COMMIT   --props C04,C19 [--tier quick]
A scratch git worktree of /repo HEAD is created under /tmp/wt, the change applied there, and the checks run with
PYTHONPATH pointing at the worktree's src (evidence files are not written, replays go to the scratch directory).
Prints one line per property: DETECTED (exit 1 + VIOLATION), MISSED (exit 0) or ERROR (exit 2)."""
from __future__ import annotations

import argparse
import os
import shutil
import subprocess
import sys
import tempfile
from pathlib import Path


def main() -> int:
    ap = argparse.ArgumentParser()
    ap.add_argument("--patch")
    ap.add_argument("--revert")
    ap.add_argument("--props", required=True)
    ap.add_argument("--tier", default="quick")
    ap.add_argument("--keep", action="store_true")
    a = ap.parse_args()
    wt = Path(tempfile.mkdtemp(prefix="mut_", dir="/tmp/wt" if Path("/tmp/wt").exists() else None))
    wt.rmdir()
    subprocess.run(["git", "-C", "/repo", "worktree", "add", "-q", "--detach", str(wt), "HEAD"], check=True)
    rc_all = 0
    try:
        if a.patch:
            subprocess.run(["git", "-C", str(wt), "apply", a.patch], check=True)
        else:
            diff = subprocess.run(["git", "-C", "/repo", "show", a.revert], capture_output=True, text=True, check=True).stdout
            subprocess.run(["git", "-C", str(wt), "apply", "-R"], input=diff, text=True, check=True)
        scratch = wt / "_lvf_scratch"
        scratch.mkdir()
        env = dict(os.environ, PYTHONPATH=f"{wt}/src:/verif", LVF_SCRATCH=str(scratch))
        for pid in a.props.split(","):
            p = subprocess.run(["/venv/bin/python", "-m", "lvf.check", pid, "--tier", a.tier], cwd="/verif", env=env,
                               capture_output=True, text=True)
            import re
            clean = re.sub(r"\x1b\[[0-9;?]*[A-Za-z]", "", p.stdout.replace("\r", "\n"))
            lines = [ln[ln.index("VIOLATION"):] if "VIOLATION property=" in ln else ln for ln in clean.splitlines()
                     if "VIOLATION property=" in ln or ln.strip().startswith("key=") or "MACHINERY" in ln]
            verdict = {0: "MISSED", 1: "DETECTED", 2: "ERROR"}.get(p.returncode, f"rc={p.returncode}")
            print(f"{pid}: {verdict}")
            for ln in lines[:4]:
                print("   ", ln[:400])
            if p.returncode == 2:
                print("   ", (p.stdout + p.stderr)[-800:])
            rc_all = max(rc_all, 0 if p.returncode == 1 else 1)
    finally:
        if not a.keep:
            subprocess.run(["git", "-C", "/repo", "worktree", "remove", "--force", str(wt)], check=False)
            shutil.rmtree(wt, ignore_errors=True)
    return rc_all


if __name__ == "__main__":
    sys.exit(main())
