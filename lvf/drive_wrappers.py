"""Driver for C13: probes the functional components of really constructed wrapper stacks."""
from __future__ import annotations

import equinox as eqx
import jax
import jax.numpy as jnp
import jax.random as jr
import numpy as np

from lerax.space import Box, Discrete

from . import tables as tb
from .drive_env import _act_array, rew_int


@eqx.filter_jit
def _probe(env, state, action, key):
    nx = env.transition(state, action, key=key)
    return (nx, env.reward(state, action, nx, key=key), env.terminal(nx, key=key), env.truncate(nx),
            env.observation(state, key=key), env.observation(nx, key=key), env.action_mask(state, key=key),
            env.transition_info(state, action, nx), env.state_info(state))


def qinf(x) -> int:
    v = float(np.asarray(x).reshape(-1)[0])
    if np.isinf(v):
        return tb.INF if v > 0 else -tb.INF
    return tb.q4(v)


def space_proj(env) -> dict:
    a, o = env.action_space, env.observation_space
    d = dict(akind="disc", alo=0, ahi=0, an=0, okind="disc", olo=0, ohi=0, on=0)
    if isinstance(a, Discrete):
        d.update(akind="disc", an=int(a.n))
    elif isinstance(a, Box):
        d.update(akind="box", alo=qinf(a.low), ahi=qinf(a.high))
    else:
        d.update(akind=type(a).__name__)
    if isinstance(o, Discrete):
        d.update(okind="disc", on=int(o.n))
    elif isinstance(o, Box):
        d.update(okind="box", olo=qinf(o.low), ohi=qinf(o.high))
    else:
        d.update(okind=type(o).__name__)
    return d


def record_components(cache: tb.EnvCache, cfg: dict, probes: list, seed: int) -> dict:
    env = cache.get(cfg)
    depth = len(cfg["stack"])
    _, osp = tb.outer_spaces(cfg)
    base = env
    for _ in range(depth):
        base = base.env
    events = []
    key = jr.key(seed)
    st0 = None
    for i in range(3):
        key, k = jr.split(key)
        st0 = env.initial(key=k)
        events.append(dict(ev="initial", obs=tb.obs_code(osp["kind"], env.observation(st0, key=k)),
                           **tb.proj_env_state(st0, depth)))
    inner_state = st0
    for _ in range(depth):
        inner_state = inner_state.env_state
    unwrapped_ok = (env.unwrapped is base) and isinstance(base, tb.TableEnv) and (st0.unwrapped is inner_state)
    for (s, cnt, a) in probes:
        key, k = jr.split(key)
        state = tb.make_state(env, cfg, s, cnt)
        nx, rew, term, trunc, obs, obs2, mask, tinfo, sinfo = jax.device_get(_probe(env, state, _act_array(cfg, a), k))
        p = tb.proj_env_state(nx, depth)
        events.append(dict(ev="probe", s=s, cnt=list(cnt), a=int(a), nx_s=p["s"], nx_cnt=p["cnt"], rew=rew_int(rew),
                           term=bool(term), trunc=bool(trunc), obs=tb.obs_code(osp["kind"], obs),
                           obs2=tb.obs_code(osp["kind"], obs2),
                           mask=[bool(x) for x in mask] if mask is not None else [],
                           info_idx=int(tinfo["idx"]) + 1, info_s=int(tinfo["s"]) + 1, info_s2=int(tinfo["s2"]) + 1))
    return {"cfg": cfg, "spaces": space_proj(env), "unwrapped_ok": bool(unwrapped_ok), "events": events}
