"""lvf - lerax verification framework: binds the TLA+ specifications in /verif/spec to
the real lerax code in /repo/src (both directions) and implements the check CLI."""
