"""Drivers that run the real Gym-style API (env.reset / env.step) and record EnvAPI traces."""
from __future__ import annotations

import equinox as eqx
import jax
import jax.numpy as jnp
import jax.random as jr
import numpy as np

from . import tables as tb


def _act_array(cfg, a: int):
    if cfg["akind"] == "disc":
        return jnp.asarray(a, dtype=jnp.int32)
    return jnp.asarray(a / 4.0, dtype=jnp.float32)


@eqx.filter_jit
def _scan_episode(env, state0, actions, keys):
    def body(state, xs):
        a, k = xs
        out = env.step(state, a, key=k)
        return out[0], out[:5]
    return jax.lax.scan(body, state0, (actions, keys))


def rew_int(r) -> int:
    v = float(np.asarray(r))
    if abs(v - round(v)) > 1e-4 or abs(v) > 1e6:
        return 7777777
    return int(round(v))


def record_envapi(cache: tb.EnvCache, cfg: dict, actions: list, seed: int, scanned: bool = True) -> dict:
    """Run reset + len(actions) steps on the real environment described by cfg; one event per public call."""
    env = cache.get(cfg)
    depth = len(cfg["stack"])
    _, osp = tb.outer_spaces(cfg)
    okind = osp["kind"]
    key = jr.key(seed)
    rkey, skey = jr.split(key)
    state, obs, _ = env.reset(key=rkey)
    events = [dict(ev="reset", a=0, obs=tb.obs_code(okind, obs), rew=0, term=False, trunc=False,
                   **tb.proj_env_state(state, depth))]
    keys = jr.split(skey, max(len(actions), 1))
    if scanned and actions:
        acts = jnp.stack([_act_array(cfg, a) for a in actions])
        _, outs = _scan_episode(env, state, acts, keys[:len(actions)])
        outs = jax.device_get(outs)
        for i, a in enumerate(actions):
            st_i = jax.tree.map(lambda x: x[i], outs[0])
            events.append(dict(ev="step", a=int(a), obs=tb.obs_code(okind, outs[1][i]), rew=rew_int(outs[2][i]),
                               term=bool(outs[3][i]), trunc=bool(outs[4][i]), **tb.proj_env_state(st_i, depth)))
    else:
        for i, a in enumerate(actions):
            state, obs, rew, term, trunc, _ = env.step(state, _act_array(cfg, a), key=keys[i])
            events.append(dict(ev="step", a=int(a), obs=tb.obs_code(okind, obs), rew=rew_int(rew),
                               term=bool(term), trunc=bool(trunc), **tb.proj_env_state(state, depth)))
    return {"cfg": cfg, "events": events}
