"""Driver for C15 / C16: real distributions and policies -> law cases judged by TLC (Trace_Laws)."""
from __future__ import annotations

import itertools
import math
import random

import equinox as eqx
import jax
import jax.numpy as jnp
import jax.random as jr
import numpy as np

from lerax.distribution import (Bernoulli, Categorical, MultiCategorical, MultivariateNormalDiag, Normal,
                                SquashedMultivariateNormalDiag, SquashedNormal)

M6 = 1000000


def micro(p) -> int:
    """probability in 1e-6 units; a non-finite value becomes -1 (no probability: every clause about it fails, none raises)"""
    p = float(p)
    return int(round(p * M6)) if math.isfinite(p) and abs(p) < 2000 else -1


def all_masks(n, nonempty=True):
    for bits in itertools.product([False, True], repeat=n):
        if any(bits) or not nonempty:
            yield list(bits)


def cat_case(w, m, via: str, keys) -> dict:
    w_arr = jnp.asarray(w, dtype=jnp.float32)
    if via == "logits_forbidden_dominant":
        # the masked law does not depend on the preferences of the forbidden classes at all: give them logits 120 nats above
        # every allowed one (their unmasked probability is 1 - 1e-52: zeroing *probabilities* instead of logits divides 0 by 0)
        base = Categorical(logits=jnp.log(w_arr) + jnp.where(jnp.asarray(m), 0.0, 120.0))
    else:
        base = Categorical(probs=w_arr / w_arr.sum()) if via == "probs" else Categorical(logits=jnp.log(w_arr))
    d = base if all(m) and via == "probs" else base.mask(jnp.asarray(m))
    probs = np.asarray(d.probs)
    allowed = [i for i in range(len(w)) if m[i]]
    samples = [int(d.sample(jr.key(k))) for k in keys]
    atoms = {}
    atoms["ProbIsExpOfLogProb"] = all(abs(float(d.prob(jnp.asarray(i))) - math.exp(float(d.log_prob(jnp.asarray(i))))) <= 1e-6 for i in allowed)
    ok = True
    for k in keys[:6]:
        x, lp = d.sample_and_log_prob(jr.key(k))
        ok &= abs(float(lp) - float(d.log_prob(x))) <= 1e-5
    atoms["SampleAndLogProbReturnsLogProbOfItsSample"] = bool(ok)
    N = 600
    ks = jr.split(jr.key(keys[0] + 5), N)
    for nm, xs in (("SampleFrequenciesFollowTheProbabilities", np.asarray(jax.vmap(d.sample)(ks))),
                   ("FrequenciesOfSampleAndLogProbFollowTheProbabilities", np.asarray(jax.vmap(lambda k: d.sample_and_log_prob(k)[0])(ks)))):
        atoms[nm] = bool(all(abs(float(np.mean(xs == i)) - float(probs[i])) <= 6.0 * math.sqrt(max(float(probs[i]) * (1 - float(probs[i])), 0.0) / N)
                             + 2.0 / N for i in range(len(w))))
    h = -sum(float(probs[i]) * math.log(float(probs[i])) for i in allowed if probs[i] > 0)
    atoms["EntropyIsMinusExpectedLogProb"] = bool(abs(float(d.entropy()) - h) <= 1e-5)
    return dict(ev="cat", w=list(w), m=list(m), probs=[micro(p) for p in probs], mode=int(d.mode()), samples=samples, atoms=atoms,
                via=via)


def bern_case(a, m, keys) -> dict:
    d = Bernoulli(probs=jnp.asarray(a, dtype=jnp.float32) / 4.0).mask(jnp.asarray(m))
    probs1 = np.asarray(d.probs)
    samples = [[int(x) for x in np.asarray(d.sample(jr.key(k)))] for k in keys]
    one, zero = jnp.ones(len(a), dtype=bool), jnp.zeros(len(a), dtype=bool)
    lp1, lp0 = np.asarray(d.log_prob(one)), np.asarray(d.log_prob(zero))
    p1, p0 = np.asarray(d.prob(one)), np.asarray(d.prob(zero))
    atoms = {"ProbIsExpOfLogProb": bool(np.all(np.abs(p1 - np.exp(lp1)) <= 1e-6) and np.all(np.abs(p0 - np.exp(lp0)) <= 1e-6)),
             "ComponentMassIsOne": bool(np.all(np.abs(p1 + p0 - 1.0) <= 1e-6))}
    N = 600
    xs = np.asarray(jax.vmap(d.sample)(jr.split(jr.key(keys[0] + 5), N))).reshape(N, -1).astype(int)
    pp = np.asarray(probs1, dtype=np.float64).reshape(-1)
    tol = lambda q: 6.0 * math.sqrt(max(q * (1 - q), 0.0) / N) + 2.0 / N
    okf = all(abs(float(np.mean(xs[:, i] == 1)) - pp[i]) <= tol(pp[i]) for i in range(len(pp)))
    if len(pp) >= 2:        # components are drawn independently: joint frequency of the first two
        q = pp[0] * pp[1]
        okf &= abs(float(np.mean((xs[:, 0] == 1) & (xs[:, 1] == 1))) - q) <= tol(q)
    atoms["SampleFrequenciesFollowTheProbabilities"] = bool(okf)
    return dict(ev="bern", a=list(a), m=list(m), probs1=[micro(p) for p in probs1], mode=[int(x) for x in np.asarray(d.mode())],
                samples=samples, atoms=atoms)


def multi_case(dims, w, m, keys, boost: float = 0.0) -> dict:
    """boost: added to the logits of the FORBIDDEN classes of the flat parameterisation (the masked law must not depend on it)"""
    w_arr = jnp.asarray(w, dtype=jnp.float32)
    pieces, off = [], 0
    for dsz in dims:
        pieces.append(w_arr[off:off + dsz])
        off += dsz
    flat = MultiCategorical(logits=jnp.log(w_arr) + jnp.where(jnp.asarray(m), 0.0, boost), action_dims=dims)
    seq = MultiCategorical(probs=[p / p.sum() for p in pieces])
    mj = jnp.asarray(m)
    d = flat.mask(mj)
    dseq = seq.mask(mj)
    comps = []
    off = 0
    for dsz in dims:
        comps.append(Categorical(logits=jnp.log(w_arr[off:off + dsz])).mask(mj[off:off + dsz]))
        off += dsz
    joint = []
    ok_sum, ok_exp = True, True
    for x in itertools.product(*[range(dsz) for dsz in dims]):
        xa = jnp.asarray(x)
        p = float(d.prob(xa))
        joint.append({"x": list(x), "p": micro(p)})
        lps = [float(c.log_prob(jnp.asarray(xi))) for c, xi in zip(comps, x)]
        lp = float(d.log_prob(xa))
        if all(np.isfinite(lps)):
            ok_sum &= abs(lp - sum(lps)) <= 1e-5
            ok_exp &= abs(p - math.exp(lp)) <= 1e-6
        else:
            ok_sum &= (not np.isfinite(lp)) or lp < -50
    atoms = {"LogProbIsSumOfComponentLogProbs": bool(ok_sum), "ProbIsExpOfLogProb": bool(ok_exp),
             "EntropyIsSumOfComponentEntropies": bool(abs(float(d.entropy()) - sum(float(c.entropy()) for c in comps)) <= 1e-5),
             "FlatAndSequenceParameterisationsAgree": bool(np.allclose(np.asarray(d.probs), np.asarray(dseq.probs), atol=1e-6))}
    ok = True
    for k in keys[:6]:
        x, lp = d.sample_and_log_prob(jr.key(k))
        ok &= abs(float(lp) - float(d.log_prob(x))) <= 1e-5
    atoms["SampleAndLogProbReturnsLogProbOfItsSample"] = bool(ok)
    samples = [[int(v) for v in np.asarray(d.sample(jr.key(k)))] for k in keys]
    # "samples follow the stated density": joint frequencies over N draws against the joint probabilities (5 sigma + 2/N), for
    # sample() and for sample_and_log_prob(); components drawn from one shared key fail here although every marginal is right
    N = 600
    ks = jr.split(jr.key(keys[0]), N)
    for nm, draw in (("sample", jax.vmap(lambda k: d.sample(k))(ks)), ("sample_and_log_prob", jax.vmap(lambda k: d.sample_and_log_prob(k)[0])(ks))):
        xs = np.asarray(draw).reshape(N, len(dims))
        okj = True
        for cell in joint:
            pj = cell["p"] / 1e6
            f = float(np.mean(np.all(xs == np.asarray(cell["x"]), axis=1)))
            okj &= abs(f - pj) <= 6.0 * math.sqrt(max(pj * (1 - pj), 0.0) / N) + 2.0 / N
        atoms["JointSampleFrequenciesFollowTheProductDensity" if nm == "sample" else "JointFrequenciesOfSampleAndLogProbFollowTheProductDensity"] = bool(okj)
    return dict(ev="multi", dims=list(dims), w=list(w), m=list(m), joint=joint, mode=[int(v) for v in np.asarray(d.mode())],
                samples=samples, atoms=atoms)


def _grid_1d(law, lo, hi, M=4000):
    """midpoint grid on (lo, hi): abscissae, density exp(log_prob), cumulative mass"""
    x = lo + (hi - lo) * (np.arange(M) + 0.5) / M
    lp = np.asarray(jax.vmap(law.log_prob)(jnp.asarray(x, dtype=jnp.float32)), dtype=np.float64)
    pdf = np.where(np.isfinite(lp), np.exp(lp), 0.0)
    cdf = np.cumsum(pdf) * (hi - lo) / M
    return x, pdf, cdf


def _follows(samples, x, cdf, N) -> bool:
    """empirical CDF of the samples against the numerically integrated density at five interior quantiles (5 sigma)"""
    ok = True
    for q in (0.1, 0.3, 0.5, 0.7, 0.9):
        j = int(np.searchsorted(cdf, q))
        if j <= 0 or j >= len(x):
            return False
        F = float(cdf[j])
        Fe = float(np.mean(samples <= x[j]))
        ok &= abs(Fe - F) <= 6.0 * math.sqrt(max(F * (1 - F), 0.0) / N) + 3.0 / N + 2e-3
    return bool(ok)


def _stat_atoms(kind, d, la, sa, low, high, key) -> dict:
    """total mass (numerical integral of exp(log_prob) incl. the squashing Jacobian), goodness of fit of samples against the stated
    density, entropy = -E[log p] (Monte Carlo, 5 sigma).  Vector laws: per-component marginals against the component's 1-D law of
    the same family (the product structure itself is a separate atom)."""
    N = 2000
    ks = jr.split(jr.key(key + 17), N)
    xs = np.asarray(jax.vmap(d.sample)(ks), dtype=np.float64).reshape(N, -1)
    xs2 = np.asarray(jax.vmap(lambda k: d.sample_and_log_prob(k)[0])(ks), dtype=np.float64).reshape(N, -1)
    loc, sc = np.asarray(la, dtype=np.float64).reshape(-1), np.asarray(sa, dtype=np.float64).reshape(-1)
    lows = np.asarray(low, dtype=np.float64).reshape(-1) if low is not None else None
    highs = np.asarray(high, dtype=np.float64).reshape(-1) if high is not None else None
    mass_ok, fit_ok, fit2_ok = True, True, True
    for i in range(len(loc)):
        if lows is None:
            comp = Normal(loc=jnp.asarray(loc[i], jnp.float32), scale=jnp.asarray(sc[i], jnp.float32))
            a, b = loc[i] - 10 * sc[i], loc[i] + 10 * sc[i]
        else:
            lo_i, hi_i = float(lows[i % len(lows)]), float(highs[i % len(highs)])
            comp = SquashedNormal(loc=jnp.asarray(loc[i], jnp.float32), scale=jnp.asarray(sc[i], jnp.float32),
                                  low=jnp.asarray(lo_i, jnp.float32), high=jnp.asarray(hi_i, jnp.float32))
            a, b = lo_i, hi_i
        law = d if len(loc) == 1 and kind in ("Normal", "SquashedNormal") else comp
        x, pdf, cdf = _grid_1d(law, a, b)
        mass_ok &= abs(float(cdf[-1]) - 1.0) <= 5e-3
        fit_ok &= _follows(xs[:, i], x, cdf, N)
        fit2_ok &= _follows(xs2[:, i], x, cdf, N)
    out = {"TotalMassIsOne": bool(mass_ok), "SamplesFollowTheStatedDensity": bool(fit_ok),
           "SamplesOfSampleAndLogProbFollowTheStatedDensity": bool(fit2_ok)}
    if len(loc) >= 2:
        # a product law: components are independent - sample correlations vanish up to 6 / sqrt(N) (shared noise gives |corr| = 1)
        def indep(z):
            c = np.corrcoef(z.T)
            return bool(np.all(np.abs(c[~np.eye(len(loc), dtype=bool)]) <= 6.0 / math.sqrt(N)))
        out["ComponentsAreSampledIndependently"] = indep(xs) and indep(xs2)
    try:
        h = float(np.asarray(d.entropy()).sum())
        lps = np.asarray(jax.vmap(d.log_prob)(jnp.asarray(xs.reshape((N,) + np.asarray(la).shape), dtype=jnp.float32)), dtype=np.float64).reshape(N, -1).sum(axis=1)
        est, se = -float(np.mean(lps)), float(np.std(lps)) / math.sqrt(N)
        out["EntropyIsMinusExpectedLogProb"] = bool(abs(est - h) <= 6.0 * se + 2e-3)
    except (NotImplementedError, AttributeError):
        pass                       # entropy is not defined for this law
    return out


def cont_case(kind, params, keys) -> dict:
    """continuous laws: only real-valued identities (atoms); there is no discrete model of a density"""
    loc, scale, low, high = params["loc"], params["scale"], params.get("low"), params.get("high")
    la, sa = jnp.asarray(loc, dtype=jnp.float32), jnp.asarray(scale, dtype=jnp.float32)
    atoms = {}
    if kind == "Normal":
        d = Normal(loc=la, scale=sa)
    elif kind == "MultivariateNormalDiag":
        d = MultivariateNormalDiag(loc=la, scale_diag=sa)
    elif kind == "SquashedNormal":
        d = SquashedNormal(loc=la, scale=sa, low=jnp.asarray(low, dtype=jnp.float32), high=jnp.asarray(high, dtype=jnp.float32))
    else:
        d = SquashedMultivariateNormalDiag(loc=la, scale_diag=sa, low=jnp.asarray(low, dtype=jnp.float32),
                                           high=jnp.asarray(high, dtype=jnp.float32))
    ok_exp, ok_slp, ok_in = True, True, True
    for k in keys:
        x = d.sample(jr.key(k))
        lp = d.log_prob(x)
        ok_exp &= bool(np.allclose(np.asarray(d.prob(x)), np.exp(np.asarray(lp)), rtol=1e-4, atol=1e-7))
        x2, lp2 = d.sample_and_log_prob(jr.key(k))
        ok_slp &= bool(np.allclose(np.asarray(lp2), np.asarray(d.log_prob(x2)), rtol=1e-4, atol=1e-4))
        if low is not None:
            ok_in &= bool(np.all(np.asarray(x) >= np.asarray(low) - 1e-6) and np.all(np.asarray(x) <= np.asarray(high) + 1e-6))
    atoms["ProbIsExpOfLogProb"] = ok_exp
    atoms["SampleAndLogProbReturnsLogProbOfItsSample"] = ok_slp
    if low is not None:
        atoms["SquashedSamplesWithinBounds"] = ok_in
        mo = np.asarray(d.mode())
        atoms["SquashedModeWithinBounds"] = bool(np.all(mo >= np.asarray(low) - 1e-6) and np.all(mo <= np.asarray(high) + 1e-6))
    atoms.update(_stat_atoms(kind, d, la, sa, low, high, keys[0]))
    if kind in ("MultivariateNormalDiag",):
        xs = d.sample(jr.key(keys[0]))
        comps = [Normal(loc=la[i], scale=sa[i]) for i in range(la.shape[0])]
        atoms["LogProbIsSumOfComponentLogProbs"] = bool(abs(float(d.log_prob(xs)) - sum(float(c.log_prob(xs[i])) for i, c in enumerate(comps))) <= 1e-4)
        atoms["EntropyIsSumOfComponentEntropies"] = bool(abs(float(d.entropy()) - sum(float(c.entropy()) for c in comps)) <= 1e-4)
    if kind == "SquashedMultivariateNormalDiag":
        xs = d.sample(jr.key(keys[0]))
        comps = [SquashedNormal(loc=la[i], scale=sa[i], low=jnp.asarray(low, dtype=jnp.float32)[i], high=jnp.asarray(high, dtype=jnp.float32)[i])
                 for i in range(la.shape[0])]
        atoms["LogProbIsSumOfComponentLogProbs"] = bool(abs(float(d.log_prob(xs)) - sum(float(c.log_prob(xs[i])) for i, c in enumerate(comps))) <= 1e-3)
    if kind == "SquashedNormal" and params.get("std"):
        # Jacobian scaling law at the image of the base mean: prob(mid) * width = 4 / sqrt(2 pi) for loc 0, scale 1
        mid = (np.asarray(low) + np.asarray(high)) / 2.0
        width = float(np.asarray(high) - np.asarray(low))
        atoms["JacobianScalesDensityWithWidth"] = bool(abs(float(d.prob(jnp.asarray(mid, dtype=jnp.float32))) * width - 4.0 / math.sqrt(2 * math.pi)) <= 1e-4)
    return dict(ev="cont", kind=kind, params={k: (list(np.asarray(v, dtype=float).reshape(-1)) if v is not None else []) for k, v in params.items() if k != "std"},
                atoms={k: bool(v) for k, v in atoms.items()})


# ------------------------------------------------------------------------------------------------ policies
def dense_ranks(vals, tol=1e-6):
    order = sorted(set(float(v) for v in vals))
    ranks, cur, last = {}, 0, None
    for v in order:
        if last is None or v - last > tol:
            cur += 1
        ranks[v] = cur
        last = v
    return [ranks[float(v)] for v in vals]


from typing import ClassVar  # noqa: E402

from lerax.env import AbstractEnv, AbstractEnvState  # noqa: E402
from lerax.policy import MLPActorCriticPolicy, MLPQPolicy  # noqa: E402
from lerax.space import Box, Discrete, MultiBinary, MultiDiscrete  # noqa: E402


class _S(AbstractEnvState):
    x: jax.Array


class SpaceEnv(AbstractEnv):
    """An environment that only exists to carry spaces (policies are constructed from an environment)."""
    name: ClassVar[str] = "SpaceEnv"
    action_space: Discrete | MultiDiscrete | MultiBinary | Box
    observation_space: Box

    def __init__(self, action_space):
        self.action_space = action_space
        self.observation_space = Box(-1.0, 1.0, shape=(3,))

    def initial(self, *, key):
        return _S(jnp.zeros(3))

    def action_mask(self, state, *, key):
        return None

    def transition(self, state, action, *, key):
        return state

    def observation(self, state, *, key):
        return state.x

    def reward(self, state, action, next_state, *, key):
        return jnp.asarray(0.0)

    def terminal(self, state, *, key):
        return jnp.asarray(False)

    def truncate(self, state):
        return jnp.asarray(False)

    def state_info(self, state):
        return {}

    def transition_info(self, state, action, next_state):
        return {}

    def default_renderer(self):
        raise NotImplementedError

    def render(self, state, renderer):
        raise NotImplementedError


def _logp(policy, obs, action):
    return float(policy.evaluate_action(None, obs, action)[2])


def _dominate_forbidden(pol, where, m, boost: float):
    """the same policy with the output bias of every FORBIDDEN class raised by `boost`: the preferences among the allowed actions
    are unchanged, so masked behaviour (greedy choice, support, reported log-probability) must be unchanged as well"""
    return eqx.tree_at(where, pol, where(pol) + jnp.where(jnp.asarray(m), 0.0, boost))


def policy_cases(kind: str, seed: int, n_keys: int, n: int = 3) -> list:
    """All non-empty masks x modes for one randomly initialised production policy and observation."""
    k0, k1 = jr.split(jr.key(seed))
    obs = jr.uniform(k1, (3,), minval=-1.0, maxval=1.0)
    out = []
    if kind == "disc":
        env = SpaceEnv(Discrete(n))
        pol = MLPActorCriticPolicy(env=env, key=k0)
        ranks = dense_ranks([_logp(pol, obs, jnp.asarray(a)) for a in range(n)])
        for m in all_masks(n):
            mj = jnp.asarray(m)
            _, a = pol(None, obs, action_mask=mj)
            out.append(dict(ev="policy", mode="greedy", comps=[dict(ranks=ranks, m=m, a=int(a))], atoms={}, kind=kind))
            for k in range(n_keys):
                kk = jr.key(seed * 131 + k)
                _, a = pol(None, obs, key=kk, action_mask=mj)
                out.append(dict(ev="policy", mode="sample", comps=[dict(ranks=ranks, m=m, a=int(a))], atoms={}, kind=kind))
                _, a, _, lp = pol.action_and_value(None, obs, key=kk, action_mask=mj)
                lp2 = pol.evaluate_action(None, obs, a, action_mask=mj)[2]
                out.append(dict(ev="policy", mode="sample", comps=[dict(ranks=ranks, m=m, a=int(a))], kind=kind,
                                atoms={"ReportedLogProbIsOfTheSameMaskedLaw": bool(abs(float(lp) - float(lp2)) <= 1e-5)}))
            if not all(m):      # forbidden actions preferred by 120 nats before masking
                pol2 = _dominate_forbidden(pol, lambda p: p.action_head.action_dist.mapping.bias, m, 120.0)
                _, a = pol2(None, obs, action_mask=mj)
                out.append(dict(ev="policy", mode="greedy", comps=[dict(ranks=ranks, m=m, a=int(a))], atoms={}, kind=kind, dominated=True))
                for k in range(min(n_keys, 3)):
                    kk = jr.key(seed * 131 + k)
                    _, a, _, lp = pol2.action_and_value(None, obs, key=kk, action_mask=mj)
                    lp1 = pol.evaluate_action(None, obs, a, action_mask=mj)[2] if m[int(a)] else jnp.nan
                    out.append(dict(ev="policy", mode="sample", comps=[dict(ranks=ranks, m=m, a=int(a))], kind=kind, dominated=True,
                                    atoms={"MaskedLawIgnoresForbiddenPreferences": bool(abs(float(lp) - float(lp1)) <= 1e-4)}))
    elif kind == "multidisc":
        dims = (2, 3)
        env = SpaceEnv(MultiDiscrete(dims))
        pol = MLPActorCriticPolicy(env=env, key=k0)
        rk = []
        for c, dsz in enumerate(dims):
            lps = []
            for v in range(dsz):
                a = [0] * len(dims)
                a[c] = v
                lps.append(_logp(pol, obs, jnp.asarray(a)))
            rk.append(dense_ranks(lps))
        masks = [m0 + m1 for m0 in all_masks(2) for m1 in all_masks(3)]
        for m in masks:
            mj = jnp.asarray(m)
            pieces = [m[:2], m[2:]]
            _, a = pol(None, obs, action_mask=mj)
            out.append(dict(ev="policy", mode="greedy", kind=kind, atoms={},
                            comps=[dict(ranks=rk[c], m=pieces[c], a=int(a[c])) for c in range(2)]))
            for k in range(n_keys):
                kk = jr.key(seed * 131 + k)
                _, a, _, lp = pol.action_and_value(None, obs, key=kk, action_mask=mj)
                lp2 = pol.evaluate_action(None, obs, a, action_mask=mj)[2]
                out.append(dict(ev="policy", mode="sample", kind=kind,
                                comps=[dict(ranks=rk[c], m=pieces[c], a=int(a[c])) for c in range(2)],
                                atoms={"ReportedLogProbIsOfTheSameMaskedLaw": bool(abs(float(lp) - float(lp2)) <= 1e-5)}))
            if not all(m):
                pol2 = _dominate_forbidden(pol, lambda p: p.action_head.action_dist.mapping.bias, m, 120.0)
                _, a = pol2(None, obs, action_mask=mj)
                out.append(dict(ev="policy", mode="greedy", kind=kind, atoms={}, dominated=True,
                                comps=[dict(ranks=rk[c], m=pieces[c], a=int(a[c])) for c in range(2)]))
                for k in range(min(n_keys, 3)):
                    kk = jr.key(seed * 131 + k)
                    _, a, _, lp = pol2.action_and_value(None, obs, key=kk, action_mask=mj)
                    legal = all(pieces[c][int(a[c])] for c in range(2))
                    lp1 = pol.evaluate_action(None, obs, a, action_mask=mj)[2] if legal else jnp.nan
                    out.append(dict(ev="policy", mode="sample", kind=kind, dominated=True,
                                    comps=[dict(ranks=rk[c], m=pieces[c], a=int(a[c])) for c in range(2)],
                                    atoms={"MaskedLawIgnoresForbiddenPreferences": bool(abs(float(lp) - float(lp1)) <= 1e-4)}))
    elif kind == "multibin":
        nb = 3
        env = SpaceEnv(MultiBinary(nb))
        pol = MLPActorCriticPolicy(env=env, key=k0)
        zero = _logp(pol, obs, jnp.zeros(nb, dtype=bool))
        rk = []
        for c in range(nb):
            one = _logp(pol, obs, jnp.zeros(nb, dtype=bool).at[c].set(True))
            rk.append(dense_ranks([zero, one]))
        for m in all_masks(nb, nonempty=False):
            mj = jnp.asarray(m)
            _, a = pol(None, obs, action_mask=mj)
            comps = lambda a: [dict(ranks=rk[c], m=[True, bool(m[c])], a=int(a[c])) for c in range(nb)]
            out.append(dict(ev="policy", mode="greedy", kind=kind, atoms={}, comps=comps(a)))
            for k in range(n_keys):
                kk = jr.key(seed * 131 + k)
                _, a, _, lp = pol.action_and_value(None, obs, key=kk, action_mask=mj)
                lp2 = pol.evaluate_action(None, obs, a, action_mask=mj)[2]
                out.append(dict(ev="policy", mode="sample", kind=kind, comps=comps(a),
                                atoms={"ReportedLogProbIsOfTheSameMaskedLaw": bool(abs(float(lp) - float(lp2)) <= 1e-5)}))
    else:   # Q policy, epsilon in {0, 0.3, 1}
        env = SpaceEnv(Discrete(n))
        for eps, mode in ((0.0, "eps0"), (0.3, "sample"), (1.0, "sample")):
            pol = MLPQPolicy(env=env, epsilon=eps, width_size=8, depth=1, key=k0)
            ranks = dense_ranks([float(q) for q in np.asarray(pol.q_values(None, obs)[1])])
            for m in all_masks(n):
                mj = jnp.asarray(m)
                _, a = pol(None, obs, action_mask=mj)
                atoms = {}
                if 0.0 < eps < 1.0:
                    # "departs from the greedy action with probability at most epsilon": frequency over N keys, 6 sigma
                    N = 2400
                    acts = np.asarray(jax.vmap(lambda kk: pol(None, obs, key=kk, action_mask=mj)[1])(jr.split(jr.key(seed + 77), N)))
                    dep = float(np.mean(acts != int(a)))
                    atoms["DepartsFromGreedyWithProbabilityAtMostEpsilon"] = bool(dep <= eps + 6.0 * math.sqrt(eps * (1 - eps) / N) + 2.0 / N)
                out.append(dict(ev="policy", mode="greedy", kind=f"q_eps{eps}", atoms=atoms, comps=[dict(ranks=ranks, m=m, a=int(a))]))
                if not all(m):      # forbidden actions with by far the highest values
                    pol2 = _dominate_forbidden(pol, lambda p: p.q_network.layers[-1].bias, m, 1e4)
                    _, a2 = pol2(None, obs, action_mask=mj)
                    out.append(dict(ev="policy", mode="greedy", kind=f"q_eps{eps}", atoms={}, comps=[dict(ranks=ranks, m=m, a=int(a2))], dominated=True))
                for k in range(n_keys):
                    _, a = pol(None, obs, key=jr.key(seed * 131 + k), action_mask=mj)
                    out.append(dict(ev="policy", mode=mode, kind=f"q_eps{eps}", atoms={}, comps=[dict(ranks=ranks, m=m, a=int(a))]))
    return out


def sac_policy_case(low, high, seed: int, n_obs: int = 4, n_keys: int = 6) -> dict:
    """MLPSACPolicy on a Box action space (possibly asymmetric bounds): the key-less action is the mode of the very distribution the
    keyed calls sample from and score, it lies within the bounds, and action_and_log_prob reports the log-probability of the
    action it returns."""
    from lerax.policy import MLPSACPolicy
    lo, hi = jnp.asarray(low, dtype=jnp.float32), jnp.asarray(high, dtype=jnp.float32)
    env = SpaceEnv(Box(lo, hi) if lo.shape else Box(float(low), float(high), shape=()))
    pol = MLPSACPolicy(env, feature_size=8, width_size=8, depth=1, key=jr.key(seed))
    rng = np.random.default_rng(seed)
    atoms = {"KeylessActionIsTheModeOfTheSampledLaw": True, "KeylessActionWithinBounds": True, "KeyedActionWithinBounds": True,
             "ReportedLogProbIsOfTheReturnedAction": True, "KeylessCallIsDeterministic": True}
    for _ in range(n_obs):
        obs = jnp.asarray(rng.uniform(-1, 1, size=3), dtype=jnp.float32)
        _, dist = pol.action_distribution(None, obs)
        _, a0 = pol(None, obs)
        _, a0b = pol(None, obs)
        mode = np.asarray(dist.mode())
        atoms["KeylessActionIsTheModeOfTheSampledLaw"] &= bool(np.allclose(np.asarray(a0), mode, rtol=1e-5, atol=1e-6))
        atoms["KeylessCallIsDeterministic"] &= bool(np.array_equal(np.asarray(a0), np.asarray(a0b)))
        atoms["KeylessActionWithinBounds"] &= bool(np.all(np.asarray(a0) >= np.asarray(lo) - 1e-6) and np.all(np.asarray(a0) <= np.asarray(hi) + 1e-6))
        for k in range(n_keys):
            _, a, lp = pol.action_and_log_prob(None, obs, key=jr.key(seed * 100 + k))
            atoms["KeyedActionWithinBounds"] &= bool(np.all(np.asarray(a) >= np.asarray(lo) - 1e-6) and np.all(np.asarray(a) <= np.asarray(hi) + 1e-6))
            atoms["ReportedLogProbIsOfTheReturnedAction"] &= bool(abs(float(lp) - float(np.sum(np.asarray(dist.log_prob(a))))) <= 1e-3)
            _, a2 = pol(None, obs, key=jr.key(seed * 100 + k))
            atoms["KeyedActionWithinBounds"] &= bool(np.all(np.asarray(a2) >= np.asarray(lo) - 1e-6) and np.all(np.asarray(a2) <= np.asarray(hi) + 1e-6))
    return dict(ev="cont", kind="MLPSACPolicy", params={"low": list(np.asarray(lo, dtype=float).reshape(-1)), "high": list(np.asarray(hi, dtype=float).reshape(-1))},
                atoms={k: bool(v) for k, v in atoms.items()})


# ------------------------------------------------------------------------------------------------ batched parameters
def batched_case(kind: str, seed: int, B: int = 3) -> dict:
    """Parameters with a leading batch dimension (valid for every class): every method must act row-wise - row i of the batched
    law is the law built from row i of the parameters.  Atoms."""
    rng = np.random.default_rng(seed)
    key = jr.key(seed)

    def rows(make, params):          # the batched law and its B row laws
        return make(*params), [make(*[jax.tree.map(lambda a: a[i], p) for p in params]) for i in range(B)]

    if kind == "Categorical":
        law, parts = rows(lambda lg: Categorical(logits=lg), [jnp.asarray(rng.normal(size=(B, 4)), jnp.float32)])
    elif kind == "Bernoulli":
        law, parts = rows(lambda lg: Bernoulli(logits=lg), [jnp.asarray(rng.normal(size=(B, 3)), jnp.float32)])
    elif kind == "MultiCategoricalFlat":
        law, parts = rows(lambda lg: MultiCategorical(logits=lg, action_dims=(2, 3)), [jnp.asarray(rng.normal(size=(B, 5)), jnp.float32)])
    elif kind == "MultiCategoricalSeq":
        law, parts = rows(lambda a, b: MultiCategorical(logits=[a, b]),
                          [jnp.asarray(rng.normal(size=(B, 2)), jnp.float32), jnp.asarray(rng.normal(size=(B, 3)), jnp.float32)])
    elif kind == "Normal":
        law, parts = rows(lambda m, s: Normal(loc=m, scale=s), [jnp.asarray(rng.normal(size=(B,)), jnp.float32), jnp.asarray(rng.uniform(0.5, 2, size=(B,)), jnp.float32)])
    elif kind == "MultivariateNormalDiag":
        law, parts = rows(lambda m, s: MultivariateNormalDiag(loc=m, scale_diag=s),
                          [jnp.asarray(rng.normal(size=(B, 2)), jnp.float32), jnp.asarray(rng.uniform(0.5, 2, size=(B, 2)), jnp.float32)])
    elif kind == "SquashedNormal":
        law, parts = rows(lambda m, s: SquashedNormal(loc=m, scale=s, low=jnp.asarray(-1.0), high=jnp.asarray(3.0)),
                          [jnp.asarray(rng.normal(size=(B,)), jnp.float32), jnp.asarray(rng.uniform(0.5, 1.5, size=(B,)), jnp.float32)])
    else:
        lo, hi = jnp.asarray([-1.0, 0.0]), jnp.asarray([1.0, 4.0])
        law, parts = rows(lambda m, s: SquashedMultivariateNormalDiag(loc=m, scale_diag=s, low=lo, high=hi),
                          [jnp.asarray(rng.normal(size=(B, 2)), jnp.float32), jnp.asarray(rng.uniform(0.5, 1.5, size=(B, 2)), jnp.float32)])
    ks = jr.split(key, B + 1)
    xs = jnp.stack([jnp.asarray(parts[i].sample(ks[i])) for i in range(B)])
    close = lambda a, b, tol=1e-4: bool(np.shape(a) == np.shape(b) and np.allclose(np.asarray(a, dtype=np.float64), np.asarray(b, dtype=np.float64), rtol=tol, atol=tol))
    atoms = {}
    atoms["BatchedLogProbIsRowWise"] = close(law.log_prob(xs), jnp.stack([parts[i].log_prob(xs[i]) for i in range(B)]))
    atoms["BatchedProbIsRowWise"] = close(law.prob(xs), jnp.stack([parts[i].prob(xs[i]) for i in range(B)]))
    atoms["BatchedModeIsRowWise"] = close(law.mode(), jnp.stack([jnp.asarray(parts[i].mode()) for i in range(B)]))
    try:
        want = jnp.stack([parts[i].entropy() for i in range(B)])
    except NotImplementedError:
        want = None
    if want is not None:
        atoms["BatchedEntropyIsRowWise"] = close(law.entropy(), want)
    s = law.sample(ks[B])
    atoms["BatchedSampleHasOneRowPerParameterRow"] = bool(np.shape(s) == np.shape(xs))
    s2, lp2 = law.sample_and_log_prob(ks[B])
    atoms["BatchedSampleAndLogProbReturnsOneLogProbPerRowOfItsSample"] = bool(np.shape(s2) == np.shape(xs)) and close(lp2, law.log_prob(s2), 1e-3) \
        and close(lp2, jnp.stack([parts[i].log_prob(s2[i]) for i in range(B)]), 1e-3)
    return dict(ev="batched", kind=kind, params={}, atoms={k: bool(v) for k, v in atoms.items()})


# (the two diagonal multivariate classes reject batched parameters at construction: "scale_diag must be a vector")
BATCHED_KINDS = ("Categorical", "Bernoulli", "MultiCategoricalFlat", "MultiCategoricalSeq", "Normal", "SquashedNormal")
