"""MANIFEST.setup_cmd: offline sanity build - syntax-check every specification with SANY, byte-compile lvf."""
from __future__ import annotations

import compileall
import sys
from concurrent.futures import ThreadPoolExecutor
from pathlib import Path

from . import tlc


def main() -> int:
    ok = compileall.compile_dir(str(Path(__file__).parent), quiet=1)
    mods = sorted(tlc.SPEC.rglob("*.tla"))

    def chk(m):
        good, out = tlc.sany(m)
        return m, good, out

    bad = 0
    with ThreadPoolExecutor(8) as ex:
        for m, good, out in ex.map(chk, mods):
            if not good:
                bad += 1
                print(f"SANY failed: {m}\n{out[-1500:]}")
    print(f"setup: {len(mods)} TLA+ modules parsed, {bad} failed; lvf byte-compiled: {bool(ok)}")
    return 0 if ok and not bad else 1


if __name__ == "__main__":
    sys.exit(main())
