"""Batched trace validation: thousands of recorded traces -> one (or a few parallel) TLC runs.

The trace specifications (spec/trace/Trace_*.tla) share one protocol:
  * TRACE_FILE (environment variable) names a JSON array of traces;
  * register 1 collects the ids of accepted traces, register 2 tuples <<tid, l, failing clause names>>;
  * the POSTCONDITION prints both as <<"ACCEPTED", ..>> and <<"REJECTED", ..>>.
Verdicts are total: a trace that is neither accepted nor rejected is a machinery failure.
"""
from __future__ import annotations

import json
import re
from concurrent.futures import ThreadPoolExecutor
from dataclasses import dataclass, field

from . import tlc
from .core import Machinery


@dataclass
class TraceVerdicts:
    accepted: set = field(default_factory=set)          # 0-based indices into the trace list
    rejected: dict = field(default_factory=dict)        # index -> (event number (1-based), sorted clause names)
    distinct: int = 0
    generated: int = 0
    wall: float = 0.0
    runs: int = 0


def _clean(x, top=True):
    """what TLC gets to see: no harness-side metadata, no JSON nulls (Json.tla cannot read them)"""
    if isinstance(x, dict):
        return {k: _clean(v, False) for k, v in x.items() if v is not None and not (top and k == "meta")
                and k not in ("record", "acts", "params", "exc", "via", "probe_x", "probe_v")}
    if isinstance(x, (list, tuple)):
        return [_clean(v, False) for v in x]
    return x


def _one(spec: str, cfgfile, traces: list, idx: list, workdir, tag: str, timeout: int, env_extra: dict | None) -> TraceVerdicts:
    v = TraceVerdicts()
    remaining = list(range(len(traces)))
    attempt = 0
    while remaining:
        attempt += 1
        if attempt > 25:
            raise Machinery(f"{spec}: too many invariant violations in one batch")
        f = workdir / f"{tag}_{attempt}.json"
        f.write_text(json.dumps([_clean(traces[i]) for i in remaining]))
        env = {"TRACE_FILE": str(f)}
        if env_extra:
            env.update(env_extra)
        res = tlc.run(spec, cfgfile, workdir=workdir, workers=1, env=env, timeout=timeout)
        f.unlink(missing_ok=True)
        v.distinct += res.distinct
        v.generated += res.generated
        v.wall += res.wall
        v.runs += 1
        if res.violated and res.violated != "POSTCONDITION":
            # an invariant of the specification failed in a state of some trace: attribute it, drop it, re-run
            m = None
            for m in re.finditer(r"/\\ tid = (\d+)", res.out):
                pass
            if not m:
                raise Machinery(f"{spec}: invariant {res.violated} violated but no trace id found\n{res.out[-2000:]}")
            k = int(m.group(1)) - 1
            ml = None
            for ml in re.finditer(r"/\\ l = (-?\d+)", res.out):
                pass
            v.rejected[idx[remaining[k]]] = (int(ml.group(1)) if ml else 0, ["Invariant:" + res.violated])
            del remaining[k]
            continue
        if not res.ok and res.violated != "POSTCONDITION":
            raise Machinery(f"{spec}: TLC failed: {res.error}\n{res.out[-3000:]}")
        acc = res.printed("ACCEPTED")
        rej = res.printed("REJECTED")
        if not acc or not rej:
            raise Machinery(f"{spec}: no verdict printed\n{res.out[-3000:]}")
        for t in acc[0][0]:
            v.accepted.add(idx[remaining[t - 1]])
        for (t, l, names) in rej[0][0]:
            i = idx[remaining[t - 1]]
            if i in v.accepted:
                continue
            old = v.rejected.get(i)
            # several branches (inferred reset draws) may die: keep the deepest one; among equally deep ones
            # the one with the fewest failing clauses (a wrong guess additionally fails ObsIsCurrent & co.)
            if old is None or l > old[0] or (l == old[0] and len(names) < len(old[1])):
                v.rejected[i] = (l, sorted(names))
        undecided = [idx[remaining[t]] for t in range(len(remaining))
                     if idx[remaining[t]] not in v.accepted and idx[remaining[t]] not in v.rejected]
        if undecided:
            raise Machinery(f"{spec}: traces neither accepted nor rejected (specification stuck): {undecided[:10]}\n"
                            f"{res.out[-1500:]}")
        remaining = []
    # a trace accepted on one branch is accepted
    for i in list(v.rejected):
        if i in v.accepted:
            del v.rejected[i]
    return v


def _relieve():
    from .core import relieve_jit
    relieve_jit()


def validate(ctx, spec: str, traces: list, tag: str, *, cfgfile=None, procs: int = 1, timeout: int = 3600,
             env_extra: dict | None = None) -> TraceVerdicts:
    """Validate `traces` against trace specification `spec` (path relative to /verif/spec)."""
    _relieve()
    if not traces:
        return TraceVerdicts()
    procs = max(1, min(procs, len(traces) // 50 or 1))
    chunks = [list(range(k, len(traces), procs)) for k in range(procs)]
    out = TraceVerdicts()

    def job(k):
        idx = chunks[k]
        return _one(spec, cfgfile, [traces[i] for i in idx], idx, ctx.work, f"{tag}_{k}", timeout, env_extra)

    if procs == 1:
        results = [job(0)]
    else:
        with ThreadPoolExecutor(procs) as ex:
            results = list(ex.map(job, range(procs)))
    for r in results:
        out.accepted |= r.accepted
        out.rejected.update(r.rejected)
        out.distinct += r.distinct
        out.generated += r.generated
        out.wall = max(out.wall, r.wall)
        out.runs += r.runs
    return out
