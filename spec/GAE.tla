-------------------------------- MODULE GAE --------------------------------
(***************************************************************************)
(* Generalised Advantage Estimation in exact fixed-point arithmetic.       *)
(*                                                                         *)
(* A case is  c = [T, r, v, d, last, gn, ln, den]  with                    *)
(*   gamma = gn/den, lambda = ln/den,                                      *)
(*   r[t]  reward numerators over den   (t in 1..T),                       *)
(*   v[t]  integer values, last = integer bootstrap value V_T,             *)
(*   d[t]  done flags.                                                     *)
(* Results are integers in units of 1/D(c),  D = den^(2T-1).               *)
(*                                                                         *)
(* Scan*  is implementation-shaped: it mirrors                             *)
(*   RolloutBuffer.compute_returns_and_advantages (src/lerax/buffer/       *)
(*   rollout.py): next_values, next_non_terminals, deltas, discounts, then *)
(*   a reverse scan  A_t = delta_t + discount_t * A_{t+1}.                 *)
(* Decl*  is the declarative definition (a sum over future TD errors cut   *)
(*   at episode ends) and the closed forms for lambda = 1 and lambda = 0.  *)
(***************************************************************************)
EXTENDS Integers, Sequences

RECURSIVE Pow(_, _)
Pow(b, e) == IF e = 0 THEN 1 ELSE b * Pow(b, e - 1)

D(c) == Pow(c.den, 2 * c.T - 1)
U(c) == D(c) \div c.den                      \* one unit of a numerator over den

NextV(c, t) == IF t = c.T THEN c.last ELSE c.v[t + 1]
NNT(c, t) == IF c.d[t] THEN 0 ELSE 1          \* next_non_terminal

(* ------------------------------ implementation shape ------------------------------ *)
Delta(c, t) == c.r[t] * U(c) + c.gn * NextV(c, t) * NNT(c, t) * U(c) - c.v[t] * D(c)

RECURSIVE ScanAdv(_, _)
ScanAdv(c, t) ==
  IF t > c.T THEN 0
  ELSE Delta(c, t) + (c.gn * c.ln * NNT(c, t) * ScanAdv(c, t + 1)) \div (c.den * c.den)

ScanRet(c, t) == ScanAdv(c, t) + c.v[t] * D(c)

\* every \div above is remainder-free (asserted as an invariant by the model-checking modules)
RECURSIVE ScanExact(_, _)
ScanExact(c, t) ==
  IF t > c.T THEN TRUE
  ELSE /\ (c.gn * c.ln * NNT(c, t) * ScanAdv(c, t + 1)) % (c.den * c.den) = 0
       /\ ScanExact(c, t + 1)

(* ------------------------------ declarative definition ------------------------------ *)
\* no episode end among steps t .. t+k-1
NoDoneBetween(c, t, k) == \A j \in t..(t + k - 1) : ~c.d[j]

RECURSIVE DeclSum(_, _, _)
\* sum_{k >= k0} (gamma lambda)^k [no done in t..t+k-1] delta_{t+k}, in units of 1/D
DeclSum(c, t, k) ==
  IF t + k > c.T THEN 0
  ELSE (IF NoDoneBetween(c, t, k)
        THEN (Pow(c.gn * c.ln, k) * Delta(c, t + k)) \div Pow(c.den * c.den, k)
        ELSE 0)
       + DeclSum(c, t, k + 1)
DeclAdv(c, t) == DeclSum(c, t, 0)

\* first episode end at or after t (T+1 if none)
RECURSIVE FirstDone(_, _)
FirstDone(c, t) == IF t > c.T THEN c.T + 1 ELSE IF c.d[t] THEN t ELSE FirstDone(c, t + 1)

\* lambda = 1: discounted Monte-Carlo return to the episode end, or to the bootstrap value
RECURSIVE McSum(_, _, _)
McSum(c, t, j) ==    \* sum_{i=t..j} gamma^(i-t) r_i   in units 1/D   (gamma^(i-t) r_i has denominator den^(i-t+1))
  IF t > j THEN 0
  ELSE c.r[t] * U(c) + (c.gn * McSum(c, t + 1, j)) \div c.den
McReturn(c, t) ==
  LET e == FirstDone(c, t) IN
  IF e <= c.T THEN McSum(c, t, e)
  ELSE McSum(c, t, c.T) + (Pow(c.gn, c.T - t + 1) * c.last * D(c)) \div Pow(c.den, c.T - t + 1)

\* lambda = 0: one-step TD error
TdError(c, t) == Delta(c, t)
=============================================================================
