------------------------------ MODULE Wrappers ------------------------------
(***************************************************************************)
(* "A wrapped environment behaves as the inner environment with only the   *)
(* declared change applied" (C13), stated for the outermost wrapper W of   *)
(* an arbitrary stack: one Gym-style step of the wrapped environment is    *)
(* one step of the environment without W, related by W's declared maps     *)
(*   action      a  |->  ActF(a)        (action wrappers)                  *)
(*   observation o  |->  ObsF(o)        (observation wrappers)             *)
(*   reward      r  |->  RewF(r)        (reward wrappers)                  *)
(*   truncation     |->  ... \/ N-th step of the episode   (TimeLimit(N))  *)
(* and identity for everything else.  IM is MDP.tla instantiated with the  *)
(* stack minus its outermost wrapper.                                      *)
(***************************************************************************)
EXTENDS Integers, Sequences, FiniteSets

VARIABLES cfg, st, out, eplen
E == INSTANCE EnvAPI
M == INSTANCE MDP
ICfg == [cfg EXCEPT !.stack = SubSeq(cfg.stack, 1, Len(cfg.stack) - 1)]
IM == INSTANCE MDP WITH cfg <- ICfg

D == Len(cfg.stack)
Top == cfg.stack[D]
Inner(ws) == [s |-> ws.s, cnt |-> SubSeq(ws.cnt, 1, D - 1)]

DeclaredChangeOnly(a) ==
  (D > 0 /\ E!Step(a)) =>
    LET ia == M!ActF(D, a)                      \* what the inner environment is fed
        io == IM!StepOut(Inner(st), ia)         \* what the inner environment does with it
        tl == Top.kind = "TimeLimit"
        done == out'.term \/ out'.trunc
    IN /\ out'.rew = M!RewF(D, io.rew)
       /\ out'.term = io.term
       /\ out'.trunc = (io.trunc \/ (tl /\ eplen + 1 >= Top.n))
       /\ ~done => /\ Inner(st') = io.nx
                   /\ out'.obs = M!ObsF(D, IM!WObs(io.nx))
       /\ done => /\ IM!IsInitialState(Inner(st'))
                  /\ out'.obs = M!ObsF(D, IM!WObs(Inner(st')))

\* only the declared signal changes: the other maps are the identity
OnlyDeclared ==
  D > 0 =>
    /\ Top.kind \notin {"ClipAction", "RescaleAction", "TransformAction"} => \A a \in {cfg.acts[i] : i \in 1..Len(cfg.acts)} : M!ActF(D, a) = a
    /\ Top.kind \notin {"ClipReward", "TransformReward"} => \A r \in -3..3 : M!RewF(D, r) = r
    /\ Top.kind \notin {"ClipObservation", "RescaleObservation", "TransformObservation", "FlattenObservation"} =>
          \A s \in 1..cfg.nS : M!ObsF(D, IM!WObs([s |-> s, cnt |-> [i \in 1..(D - 1) |-> 0]])) = IM!WObs([s |-> s, cnt |-> [i \in 1..(D - 1) |-> 0]])
    /\ Top.kind \notin {"ClipAction", "RescaleAction", "TransformAction"} => M!ASpace(D) = M!ASpace(D - 1)
    /\ Top.kind \notin {"RescaleObservation", "TransformObservation", "FlattenObservation"} => M!OSpace(D) = M!OSpace(D - 1)

\* an affine rescale takes the new bounds exactly onto the original bounds
RescaleExact ==
  \A i \in 1..D :
     /\ cfg.stack[i].kind = "RescaleAction" =>
           /\ M!ActF(i, cfg.stack[i].lo) = M!ASpace(i - 1).lo
           /\ M!ActF(i, cfg.stack[i].hi) = M!ASpace(i - 1).hi
     /\ cfg.stack[i].kind = "RescaleObservation" =>
           /\ M!ObsF(i, M!OSpace(i - 1).lo) = cfg.stack[i].lo
           /\ M!ObsF(i, M!OSpace(i - 1).hi) = cfg.stack[i].hi
=============================================================================
