------------------------------ MODULE EnvOpaque ------------------------------
(***************************************************************************)
(* The discrete envelope of the Gym-style API around an environment whose  *)
(* dynamics are opaque (the built-in continuous environments): the         *)
(* TimeLimit counters of the wrapper stack and the episode clock, driven   *)
(* by the inner termination / truncation flags of each transition.         *)
(*   limits   the limits of the TimeLimit wrappers in the stack            *)
(*   cnt      their counters                 eplen   history: episode clock *)
(***************************************************************************)
EXTENDS Integers, Sequences, FiniteSets
VARIABLES limits, cnt, eplen, started
vars == <<limits, cnt, eplen, started>>

Init(ls) == limits = ls /\ cnt = [i \in 1..Len(ls) |-> 0] /\ eplen = 0 /\ started = FALSE
LimitHit == \E i \in 1..Len(limits) : cnt[i] + 1 >= limits[i]
Reset == cnt' = [i \in 1..Len(limits) |-> 0] /\ eplen' = 0 /\ started' = TRUE /\ UNCHANGED limits
\* one step whose inner transition reports (innerTerm, innerTrunc)
Step(innerTerm, innerTrunc) ==
  /\ started
  /\ IF innerTerm \/ innerTrunc \/ LimitHit
     THEN cnt' = [i \in 1..Len(limits) |-> 0] /\ eplen' = 0
     ELSE cnt' = [i \in 1..Len(limits) |-> cnt[i] + 1] /\ eplen' = eplen + 1
  /\ UNCHANGED <<limits, started>>

CountersAreClock == \A i \in 1..Len(limits) : cnt[i] = eplen
NeverPastLimit == \A i \in 1..Len(limits) : eplen < limits[i]
=============================================================================
