-------------------------------- MODULE Eval --------------------------------
(***************************************************************************)
(* The evaluation helper lerax.benchmark.average_reward (rollout_scan with *)
(* a step cap, rollout_while without): the undiscounted return of one      *)
(* episode of a deterministic tabular policy on a wrapped finite MDP,      *)
(* ending at its first terminal or truncated state or at the step cap.     *)
(* Pure operators over cfg (MDP.tla + policy tables Raw, P).               *)
(***************************************************************************)
EXTENDS Integers, Sequences, FiniteSets
VARIABLE cfg
M == INSTANCE MDP
PIdx(o) == o % cfg.P
Greedy(ws) == cfg.Raw[PIdx(M!WObs(ws)) + 1][1]      \* key-less policy: the first candidate

\* declarative: sum of rewards up to and including the first done step, at most n steps
RECURSIVE EpisodeReturn(_, _)
EpisodeReturn(ws, n) ==
  IF n = 0 THEN 0
  ELSE LET o == M!StepOut(ws, Greedy(ws)) IN
       o.rew + (IF o.term \/ o.trunc THEN 0 ELSE EpisodeReturn(o.nx, n - 1))

\* implementation shape of rollout_scan: a done latch carried through a fixed-length scan
RECURSIVE ScanReturn(_, _, _)
ScanReturn(ws, done, n) ==
  IF n = 0 THEN 0
  ELSE IF done THEN 0 + ScanReturn(ws, TRUE, n - 1)
       ELSE LET o == M!StepOut(ws, Greedy(ws)) IN o.rew + ScanReturn(o.nx, o.term \/ o.trunc, n - 1)

ReturnFrom(s0, n) == EpisodeReturn(M!WInitial(s0), n)

\* E * mean over E independent episodes is explained by some assignment of initial states
RECURSIVE Sums(_, _)
Sums(E, n) == IF E = 0 THEN {0} ELSE {x + ReturnFrom(s0, n) : x \in Sums(E - 1, n), s0 \in M!InitSet}
=============================================================================
