SPECIFICATION TSpec
CONSTRAINT Mark
POSTCONDITION Post
INVARIANT RatioOne
INVARIANT PolicyStateCounts
INVARIANT BootstrapOnlyThroughTruncation
INVARIANT MaskRespected
CHECK_DEADLOCK FALSE
