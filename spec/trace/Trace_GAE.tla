----------------------------- MODULE Trace_GAE -----------------------------
(* Case validation for C03: every element of TRACE_FILE is                     *)
(*   [c |-> GAE case (see GAE.tla), adv |-> <<..>>, ret |-> <<..>>]             *)
(* where adv / ret are what the real RolloutBuffer.compute_returns_and_         *)
(* advantages returned for that case (integers in units of 1/D(c)).             *)
EXTENDS Integers, Sequences, FiniteSets, TLC, TLCExt, Json, IOUtils

VARIABLES tid, l, rej
G == INSTANCE GAE
vars == <<tid, l, rej>>

Cases == JsonDeserialize(IOEnv.TRACE_FILE)
C == Cases[tid].c

TInit == /\ TLCSet(1, {}) /\ TLCSet(2, {})
         /\ tid \in 1..Len(Cases) /\ l = 1 /\ rej = <<>>

Clauses ==
  [AdvantagesAreGAE       |-> \A t \in 1..C.T : Cases[tid].adv[t] = G!ScanAdv(C, t),
   ReturnsAreAdvPlusValue |-> \A t \in 1..C.T : Cases[tid].ret[t] = G!ScanRet(C, t)]
Failed == {n \in DOMAIN Clauses : ~Clauses[n]}

TCheck == /\ l = 1
          /\ IF Failed = {} THEN l' = 2 /\ UNCHANGED rej
             ELSE l' = 0 /\ rej' = <<1, Failed>>
          /\ UNCHANGED tid
TSpec == TInit /\ [][TCheck]_vars

Mark == /\ IF l = 2 THEN TLCSet(1, TLCGet(1) \cup {tid}) ELSE TRUE
        /\ IF l = 0 THEN TLCSet(2, TLCGet(2) \cup {<<tid, rej[1], rej[2]>>}) ELSE TRUE
Post == /\ PrintT(<<"ACCEPTED", TLCGet(1)>>)
        /\ PrintT(<<"REJECTED", TLCGet(2)>>)
=============================================================================
