---------------------------- MODULE Trace_EnvAPI ----------------------------
(* Trace validation (code -> specification) for the Gym-style API.            *)
(* TRACE_FILE holds an array of traces recorded from the real lerax objects:  *)
(*   [cfg |-> MDP cfg, events |-> << [ev, a, obs, rew, term, trunc, s, cnt] >>]*)
(* one event per public reset/step call, logged at the call's return.  Every  *)
(* event is checked clause by clause against EnvAPI; a trace is accepted iff  *)
(* every event is explained, otherwise the names of the failing clauses are   *)
(* reported.  All EnvAPI invariants are evaluated in every state as well.     *)
EXTENDS Integers, Sequences, FiniteSets, TLC, TLCExt, Json, IOUtils

VARIABLES cfg, st, out, eplen, tid, l, rej
E == INSTANCE EnvAPI
M == INSTANCE MDP
vars == <<cfg, st, out, eplen, tid, l, rej>>

Traces == JsonDeserialize(IOEnv.TRACE_FILE)
Tr == Traces[tid].events

TInit == /\ TLCSet(1, {}) /\ TLCSet(2, {})
         /\ tid \in 1..Len(Traces) /\ l = 1 /\ rej = <<>>
         /\ E!Init(Traces[tid].cfg)

LoggedState(ev) == [s |-> ev.s, cnt |-> ev.cnt]
LoggedOut(ev) == [obs |-> ev.obs, rew |-> ev.rew, term |-> ev.term, trunc |-> ev.trunc]

\* total verdicts: a logged state outside the model's state space (possible when the code under test is broken) is a failing
\* clause, not an evaluation error - every other clause is guarded by it
WF(ev) == ev.s \in 1..(cfg.nS + 1) /\ Len(ev.cnt) = M!Depth /\ \A i \in 1..Len(ev.cnt) : ev.cnt[i] \in Nat
Clauses(ev) ==
  LET ls == LoggedState(ev) wf == WF(ev) IN
  IF ev.ev = "at"          \* spec -> code edge cover: the harness placed the real object in a state TLC reported reachable
  THEN [PlacedStateIsWellFormed |-> ev.s \in 1..cfg.nS /\ Len(ev.cnt) = M!Depth]
  ELSE IF ev.ev = "reset"
  THEN [LoggedStateIsAStateOfTheModel |-> wf,
        ResetStateIsInitial  |-> wf /\ M!IsInitialState(ls),
        ResetObsIsOwn        |-> wf /\ ev.obs = M!WObs(ls)]
  ELSE IF ev.ev = "gxstep"      \* a Gymnax-style step: termination and truncation arrive merged as `done' (ev.term)
  THEN LET o == M!StepOut(st, ev.a) done == o.term \/ o.trunc IN
       [LoggedStateIsAStateOfTheModel |-> wf,
        RewardOfTransitionTaken |-> ev.rew = o.rew,
        DoneIsTermOrTrunc       |-> ev.term = done,
        FreshStateWhenDone      |-> wf /\ (done => M!IsInitialState(ls)),
        SuccessorOtherwise      |-> wf /\ ((~done) => ls = o.nx),
        ObsIsOfReturnedState    |-> wf /\ ev.obs = M!WObs(ls)]
  ELSE LET o == M!StepOut(st, ev.a) done == o.term \/ o.trunc IN
       [LoggedStateIsAStateOfTheModel |-> wf,
        RewardOfTransitionTaken |-> ev.rew = o.rew,
        TerminalOfSuccessor     |-> ev.term = o.term,
        TruncatedOfSuccessor    |-> ev.trunc = o.trunc,
        FreshStateWhenDone      |-> wf /\ (done => M!IsInitialState(ls)),
        SuccessorOtherwise      |-> wf /\ ((~done) => ls = o.nx),
        ObsIsOfReturnedState    |-> wf /\ ev.obs = M!WObs(ls)]
Failed(ev) == LET c == Clauses(ev) IN {n \in DOMAIN c : ~c[n]}

TPlace == /\ l >= 1 /\ l <= Len(Tr) /\ Tr[l].ev = "at" /\ Failed(Tr[l]) = {}
          /\ st' = LoggedState(Tr[l]) /\ eplen' = Tr[l].eplen
          /\ out' = [obs |-> M!WObs(LoggedState(Tr[l])), rew |-> 0, term |-> FALSE, trunc |-> FALSE]
          /\ l' = l + 1 /\ UNCHANGED <<cfg, tid, rej>>
TStep == /\ l >= 1 /\ l <= Len(Tr) /\ Tr[l].ev # "at" /\ Failed(Tr[l]) = {}
         /\ IF Tr[l].ev = "reset" THEN E!Reset ELSE E!Step(Tr[l].a)
         /\ st' = LoggedState(Tr[l])
         /\ IF Tr[l].ev = "gxstep" THEN out'.obs = Tr[l].obs /\ out'.rew = Tr[l].rew ELSE out' = LoggedOut(Tr[l])
         /\ l' = l + 1 /\ UNCHANGED <<tid, rej>>
TReject == /\ l >= 1 /\ l <= Len(Tr) /\ Failed(Tr[l]) # {}
           /\ rej' = <<l, Failed(Tr[l])>> /\ l' = 0
           /\ UNCHANGED <<cfg, st, out, eplen, tid>>
TNext == TStep \/ TPlace \/ TReject
TSpec == TInit /\ [][TNext]_vars

Mark == /\ IF l = Len(Tr) + 1 THEN TLCSet(1, TLCGet(1) \cup {tid}) ELSE TRUE
        /\ IF l = 0 THEN TLCSet(2, TLCGet(2) \cup {<<tid, rej[1], rej[2]>>}) ELSE TRUE
Post == /\ PrintT(<<"ACCEPTED", TLCGet(1)>>)
        /\ PrintT(<<"REJECTED", TLCGet(2)>>)

ObsIsOfState == E!ObsIsOfState
FreshIffDone == E!FreshIffDone
CountersAreClock == E!CountersAreClock
NeverPastLimit == E!NeverPastLimit
=============================================================================
