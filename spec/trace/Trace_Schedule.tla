--------------------------- MODULE Trace_Schedule ---------------------------
(* Trace validation of the training schedule (C10).  One trace = one run:       *)
(*   [cfg |-> Schedule cfg, init |-> [onl_id, tgt_id, actor_id, alpha_id],      *)
(*    events |-> << [ev |-> "iter", iter, pos, onl_id, tgt_id, actor_id,        *)
(*                   alpha_id, polyak_ok]                                       *)
(*               | [ev |-> "polyak", wo, wt, res_q]                             *)
(*               | [ev |-> "learn", total, nrec, steps] >>]                     *)
(* *_id are interned digests of the real parameter pytrees (equal id <=> bit-   *)
(* identical parameters); polyak_ok is the atom  ||target_new - (tau*online_new *)
(* + (1-tau)*target_old)||_inf <= 1e-6; "polyak" is an exact instance with      *)
(* integer weights; "learn" lists the step arguments of the records that        *)
(* reached the backend during learn(total).                                     *)
EXTENDS Integers, Sequences, FiniteSets, TLC, TLCExt, Json, IOUtils
VARIABLES cfg, iter, steps, onl, tgt, actor, alpha, theta, thetaT, snap, fresh, rsnap, ractor, ralpha, tid, l, rej
Sc == INSTANCE Schedule
vars == <<cfg, iter, steps, onl, tgt, actor, alpha, theta, thetaT, snap, fresh, rsnap, ractor, ralpha, tid, l, rej>>
Traces == JsonDeserialize(IOEnv.TRACE_FILE)
Tr == Traces[tid].events
TInit == /\ TLCSet(1, {}) /\ TLCSet(2, {})
         /\ tid \in 1..Len(Traces) /\ l = 1 /\ rej = <<>>
         /\ Sc!Init(Traces[tid].cfg)
         /\ rsnap = <<Traces[tid].init.onl_id>> /\ ractor = Traces[tid].init.actor_id /\ ralpha = Traces[tid].init.alpha_id

Clauses(ev) ==
  IF ev.ev = "iter" THEN
     LET it2 == iter + 1 IN
     [IterationCounterAdvancesByOne   |-> ev.iter = it2,
      StepsConsumedPerIteration       |-> \A e \in 1..Len(ev.pos) : ev.pos[e] = cfg.ls + it2 * cfg.S,
      TargetIsOnlineAsOfLastMultipleOfInterval |->
          cfg.alg = "DQN" => ev.tgt_id = Append(rsnap, ev.onl_id)[cfg.K * (it2 \div cfg.K) + 1],
      ActorAndTemperatureOnlyOnSchedule |->
          (cfg.alg = "SAC" /\ iter % cfg.pf # 0) => (ev.actor_id = ractor /\ ev.alpha_id = ralpha),
      TemperatureOnlyWhenAutotuning   |-> (cfg.alg = "SAC" /\ ~cfg.auto) => ev.alpha_id = Traces[tid].init.alpha_id,
      PolyakOncePerIteration          |-> cfg.alg = "SAC" => ev.polyak_ok]
  ELSE IF ev.ev = "polyak" THEN
     [PolyakIsTauOnlinePlusOneMinusTauTarget |-> ev.res_q = cfg.tn * ev.wo + (4 - cfg.tn) * ev.wt]
  ELSE
     [ExactlyFloorTotalOverEnvsTimesStepsIterations |-> ev.nrec = ev.total \div (cfg.E * cfg.S),
      RecordsCarryCumulativeStepsInOrder |-> \A i \in 1..Len(ev.steps) : ev.steps[i] = cfg.ls * cfg.E + i * cfg.E * cfg.S]
Failed(ev) == LET c == Clauses(ev) IN {n \in DOMAIN c : ~c[n]}

TStep == /\ l >= 1 /\ l <= Len(Tr) /\ Failed(Tr[l]) = {}
         /\ IF Tr[l].ev = "iter"
            THEN /\ Sc!Iterate(0)
                 /\ rsnap' = Append(rsnap, Tr[l].onl_id) /\ ractor' = Tr[l].actor_id /\ ralpha' = Tr[l].alpha_id
            ELSE UNCHANGED <<cfg, iter, steps, onl, tgt, actor, alpha, theta, thetaT, snap, fresh, rsnap, ractor, ralpha>>
         /\ l' = l + 1 /\ UNCHANGED <<tid, rej>>
TReject == /\ l >= 1 /\ l <= Len(Tr) /\ Failed(Tr[l]) # {}
           /\ rej' = <<l, Failed(Tr[l])>> /\ l' = 0
           /\ UNCHANGED <<cfg, iter, steps, onl, tgt, actor, alpha, theta, thetaT, snap, fresh, rsnap, ractor, ralpha, tid>>
TSpec == TInit /\ [][TStep \/ TReject]_vars
Mark == /\ IF l = Len(Tr) + 1 THEN TLCSet(1, TLCGet(1) \cup {tid}) ELSE TRUE
        /\ IF l = 0 THEN TLCSet(2, TLCGet(2) \cup {<<tid, rej[1], rej[2]>>}) ELSE TRUE
Post == /\ PrintT(<<"ACCEPTED", TLCGet(1)>>) /\ PrintT(<<"REJECTED", TLCGet(2)>>)
TargetIsLastMultiple == Sc!TargetIsLastMultiple
StepsConsumed == Sc!StepsConsumed
=============================================================================
