SPECIFICATION TSpec
CONSTRAINT Mark
POSTCONDITION Post
INVARIANT CountersAreClock
INVARIANT NeverPastLimit
CHECK_DEADLOCK FALSE
