--------------------------- MODULE Trace_Minibatch ---------------------------
(* Trace validation for C09.  One trace = one rollout buffer of shape (E, S):   *)
(*   [cfg |-> [E, S, B, epochs],                                                *)
(*    events |-> << [ev |-> "flatten", rows]            rows of flatten_axes()   *)
(*               | [ev |-> "indices", idx]              batch_indices(B, key)    *)
(*               | [ev |-> "gather", idx, rows]         gather(one index row)    *)
(*               | [ev |-> "batches", rows]             batches(B, key), all rows *)
(*               | [ev |-> "sample", n, rows]           RolloutBuffer.sample(n)   *)
(*               | [ev |-> "train", k]                  visit counts decoded from PPO.train *)
(*               | [ev |-> "family", ks] >>]            visit-count vectors of several runs *)
(* A row is the sequence of tags found in every leaf of every field of one      *)
(* gathered sample (observation leaves, action leaves, reward, done, log-prob,  *)
(* value, return, advantage, policy state, mask); an intact row repeats one tag.*)
EXTENDS Integers, Sequences, FiniteSets, TLC, TLCExt, Json, IOUtils
VARIABLES cfg, flat, tid, l, rej
vars == <<cfg, flat, tid, l, rej>>
Traces == JsonDeserialize(IOEnv.TRACE_FILE)
Tr == Traces[tid].events
N == cfg.E * cfg.S
TInit == /\ TLCSet(1, {}) /\ TLCSet(2, {})
         /\ tid \in 1..Len(Traces) /\ l = 1 /\ rej = <<>> /\ cfg = Traces[tid].cfg /\ flat = <<>>

Intact(row) == \A j \in 1..Len(row) : row[j] = row[1]
TagOf(row) == row[1]
Distinct(s) == \A i, j \in 1..Len(s) : i # j => s[i] # s[j]
AllTags == {(e - 1) * cfg.S + s : e \in 1..cfg.E, s \in 1..cfg.S}
RECURSIVE SumSeq(_, _)
SumSeq(s, i) == IF i = 0 THEN 0 ELSE s[i] + SumSeq(s, i - 1)
Mod(a, b) == a % b
FlatIdx(idx) == [i \in 1..(Len(idx) * cfg.B) |-> idx[(i - 1) \div cfg.B + 1][Mod(i - 1, cfg.B) + 1]]

Clauses(ev) ==
  CASE ev.ev = "flatten" ->
         [EveryFieldOfARowBelongsTogether |-> \A i \in 1..Len(ev.rows) : Intact(ev.rows[i]),
          FlatteningNeitherLosesNorDuplicates |-> Len(ev.rows) = N /\ {TagOf(ev.rows[i]) : i \in 1..Len(ev.rows)} = AllTags]
    [] ev.ev = "estimate" ->   \* the rollout after advantage estimation: every field other than returns / advantages, sample by sample
         [EstimationKeepsEveryOtherFieldOfEverySample |->
              /\ Len(ev.rows) = N /\ Len(flat) = N
              /\ \A i \in 1..N : Intact(ev.rows[i]) /\ TagOf(ev.rows[i]) = TagOf(flat[i]) /\ Len(ev.rows[i]) = ev.width]
    [] ev.ev = "indices" ->
         [RowsHaveBatchSize      |-> \A r \in 1..Len(ev.idx) : Len(ev.idx[r]) = cfg.B,
          ExactlyFloorNOverBTimesBUsed |-> Len(ev.idx) * cfg.B = (N \div cfg.B) * cfg.B,
          EachSampleAtMostOnce   |-> Distinct(FlatIdx(ev.idx)),
          IndicesInRange         |-> \A i \in 1..(Len(ev.idx) * cfg.B) : FlatIdx(ev.idx)[i] \in 0..(N - 1)]
    [] ev.ev = "gather" ->
         [GatheredRowIsTheIndexedSampleIntact |->
              /\ Len(ev.rows) = Len(ev.idx)
              /\ \A i \in 1..Len(ev.rows) : Intact(ev.rows[i]) /\ TagOf(ev.rows[i]) = TagOf(flat[ev.idx[i] + 1])]
    [] ev.ev = "batches" ->
         [EveryFieldOfARowBelongsTogether |-> \A i \in 1..Len(ev.rows) : Intact(ev.rows[i]),
          EachSampleAtMostOnce   |-> Distinct([i \in 1..Len(ev.rows) |-> TagOf(ev.rows[i])]),
          ExactlyFloorNOverBTimesBUsed |-> Len(ev.rows) = (N \div cfg.B) * cfg.B,
          OnlyCollectedSamples   |-> \A i \in 1..Len(ev.rows) : TagOf(ev.rows[i]) \in AllTags]
    [] ev.ev = "sample" ->
         [EveryFieldOfARowBelongsTogether |-> \A i \in 1..Len(ev.rows) : Intact(ev.rows[i]),
          EachSampleAtMostOnce   |-> Distinct([i \in 1..Len(ev.rows) |-> TagOf(ev.rows[i])]),
          SampleHasRequestedSize |-> Len(ev.rows) = ev.n,
          OnlyCollectedSamples   |-> \A i \in 1..Len(ev.rows) : TagOf(ev.rows[i]) \in AllTags]
    [] ev.ev = "train" ->
         [EachSampleAtMostOncePerEpoch |-> \A i \in 1..Len(ev.k) : ev.k[i] >= 0 /\ ev.k[i] <= cfg.epochs,
          EveryEpochUsesFloorNOverBTimesB |-> Len(ev.k) = N /\ SumSeq(ev.k, Len(ev.k)) = cfg.epochs * (N \div cfg.B) * cfg.B,
          NothingDroppedWhenBDividesN |-> (Mod(N, cfg.B) = 0) => \A i \in 1..Len(ev.k) : ev.k[i] = cfg.epochs]
    [] OTHER ->   \* "family": when B does not divide N, a fresh shuffle per epoch shows up as a sample dropped in one epoch only
         [FreshShufflePerEpoch |-> \E r \in 1..Len(ev.ks) : \E i \in 1..Len(ev.ks[r]) : ev.ks[r][i] > 0 /\ ev.ks[r][i] < cfg.epochs]
Failed(ev) == LET c == Clauses(ev) IN {n \in DOMAIN c : ~c[n]}
TStep == /\ l >= 1 /\ l <= Len(Tr) /\ Failed(Tr[l]) = {}
         /\ flat' = IF Tr[l].ev = "flatten" THEN Tr[l].rows ELSE flat
         /\ l' = l + 1 /\ UNCHANGED <<cfg, tid, rej>>
TReject == /\ l >= 1 /\ l <= Len(Tr) /\ Failed(Tr[l]) # {}
           /\ rej' = <<l, Failed(Tr[l])>> /\ l' = 0 /\ UNCHANGED <<cfg, flat, tid>>
TSpec == TInit /\ [][TStep \/ TReject]_vars
Mark == /\ IF l = Len(Tr) + 1 THEN TLCSet(1, TLCGet(1) \cup {tid}) ELSE TRUE
        /\ IF l = 0 THEN TLCSet(2, TLCGet(2) \cup {<<tid, rej[1], rej[2]>>}) ELSE TRUE
Post == /\ PrintT(<<"ACCEPTED", TLCGet(1)>>) /\ PrintT(<<"REJECTED", TLCGet(2)>>)
=============================================================================
