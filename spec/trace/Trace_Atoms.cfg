SPECIFICATION TSpec
CONSTRAINT Mark
POSTCONDITION Post
CHECK_DEADLOCK FALSE
