--------------------------- MODULE Trace_EnvOpaque ---------------------------
(* Trace validation for built-in environments (C01 envelope, C02 typing, C12a). *)
(* One trace = one rollout through env.reset / env.step of a built-in           *)
(* environment under a wrapper stack:                                           *)
(*  [limits, events |-> << [ev, term, trunc, c_term, c_trunc, cnt, atoms] >>]    *)
(* term / trunc: flags reported by step; c_term / c_trunc: terminal / inner     *)
(* truncation of the separately computed component successor; cnt: counters of  *)
(* the returned state; atoms: booleans evaluated by the projection with the     *)
(* tolerance rule (value relations) or by an independent numpy oracle (typing). *)
EXTENDS Integers, Sequences, FiniteSets, TLC, TLCExt, Json, IOUtils
VARIABLES limits, cnt, eplen, started, tid, l, rej
E == INSTANCE EnvOpaque
vars == <<limits, cnt, eplen, started, tid, l, rej>>
Traces == JsonDeserialize(IOEnv.TRACE_FILE)
Tr == Traces[tid].events
TInit == /\ TLCSet(1, {}) /\ TLCSet(2, {}) /\ tid \in 1..Len(Traces) /\ l = 1 /\ rej = <<>>
         /\ E!Init(Traces[tid].limits)
Zero == [i \in 1..Len(limits) |-> 0]
Structural(ev) ==
  IF ev.ev = "reset"
  THEN [ResetCountersAndClockAreZero |-> ev.cnt = Zero]
  ELSE LET done == ev.c_term \/ ev.c_trunc \/ E!LimitHit IN
       [TerminalIsThatOfTheSuccessor      |-> ev.term = ev.c_term,
        TruncatedIsInnerOrExactTimeLimit  |-> ev.trunc = (ev.c_trunc \/ E!LimitHit),
        CountersRestartWhenDone           |-> done => ev.cnt = Zero,
        CountersAdvanceOtherwise          |-> (~done) => ev.cnt = [i \in 1..Len(limits) |-> cnt[i] + 1]]
\* atoms that only apply on one side of the done / not-done split are logged as TRUE on the other side
Failed(ev) == LET s == Structural(ev) IN {n \in DOMAIN s : ~s[n]} \cup {n \in DOMAIN ev.atoms : ~ev.atoms[n]}
TStep == /\ l >= 1 /\ l <= Len(Tr) /\ Failed(Tr[l]) = {}
         /\ IF Tr[l].ev = "reset" THEN E!Reset ELSE E!Step(Tr[l].c_term, Tr[l].c_trunc)
         /\ l' = l + 1 /\ UNCHANGED <<tid, rej>>
TReject == /\ l >= 1 /\ l <= Len(Tr) /\ Failed(Tr[l]) # {}
           /\ rej' = <<l, Failed(Tr[l])>> /\ l' = 0 /\ UNCHANGED <<limits, cnt, eplen, started, tid>>
TSpec == TInit /\ [][TStep \/ TReject]_vars
Mark == /\ IF l = Len(Tr) + 1 THEN TLCSet(1, TLCGet(1) \cup {tid}) ELSE TRUE
        /\ IF l = 0 THEN TLCSet(2, TLCGet(2) \cup {<<tid, rej[1], rej[2]>>}) ELSE TRUE
Post == /\ PrintT(<<"ACCEPTED", TLCGet(1)>>) /\ PrintT(<<"REJECTED", TLCGet(2)>>)
CountersAreClock == E!CountersAreClock
NeverPastLimit == E!NeverPastLimit
=============================================================================
