---------------------------- MODULE Trace_Training ----------------------------
(* Trace validation of the callback protocol: one trace = the event sequence a   *)
(* flight-recorder callback saw during one real learn() call (num_envs = 1):     *)
(*   [cfg, events |-> << [e, k] >>]   k = iteration_count shown to the callback  *)
(* (on_iteration, on_training_start/end), cumulative number of on_step calls.     *)
(* `train' is internal (not observable): it is taken as a silent step.           *)
EXTENDS Integers, Sequences, FiniteSets, TLC, TLCExt, Json, IOUtils
VARIABLES cfg, pc, iter, insteps, nsteps, log, tid, l, rej
T == INSTANCE Training
vars == <<cfg, pc, iter, insteps, nsteps, log, tid, l, rej>>
Traces == JsonDeserialize(IOEnv.TRACE_FILE)
Tr == Traces[tid].events
TInit == /\ TLCSet(1, {}) /\ TLCSet(2, {}) /\ tid \in 1..Len(Traces) /\ l = 1 /\ rej = <<>> /\ T!Init(Traces[tid].cfg)
\* the next observable event the specification allows from here (after at most one silent `train')
Expected ==
  CASE pc = "start" -> [e |-> "step_reset", k |-> 0]
    [] pc = "warm" -> [e |-> "on_step", k |-> nsteps + 1]
    [] pc = "cbreset" -> [e |-> "reset", k |-> 0]
    [] pc = "tstart" -> [e |-> "on_training_start", k |-> iter]
    [] pc = "collect" -> [e |-> "on_step", k |-> nsteps + 1]
    [] pc = "train" -> [e |-> "on_iteration", k |-> iter + 1]
    [] pc = "oniter" -> [e |-> "on_iteration", k |-> iter]
    [] pc = "tend" -> [e |-> "on_training_end", k |-> iter]
    [] OTHER -> [e |-> "nothing", k |-> 0]
Clauses(ev) == [CallbackCalledInProtocolOrder |-> ev.e = Expected.e,
                CallbackSeesTheRightCounter   |-> ev.e = Expected.e => ev.k = Expected.k]
Failed(ev) == LET c == Clauses(ev) IN {n \in DOMAIN c : ~c[n]}
Silent == pc = "train" /\ T!Train /\ UNCHANGED <<tid, l, rej>>
TStep == /\ l >= 1 /\ l <= Len(Tr) /\ pc # "train" /\ Failed(Tr[l]) = {}
         /\ T!Next /\ Len(log') = Len(log) + 1 /\ log'[Len(log')].e = Tr[l].e
         /\ l' = l + 1 /\ UNCHANGED <<tid, rej>>
TReject == /\ l >= 1 /\ l <= Len(Tr) /\ pc # "train" /\ Failed(Tr[l]) # {}
           /\ rej' = <<l, Failed(Tr[l])>> /\ l' = 0 /\ UNCHANGED <<cfg, pc, iter, insteps, nsteps, log, tid>>
TEndMissing == /\ l = Len(Tr) + 1 /\ pc \notin {"done", "train"}
               /\ rej' = <<l, {"LearnStoppedBeforeTheProtocolWasComplete"}>> /\ l' = 0 /\ UNCHANGED <<cfg, pc, iter, insteps, nsteps, log, tid>>
TAccept == l = Len(Tr) + 1 /\ pc = "done" /\ l' = l + 1 /\ UNCHANGED <<cfg, pc, iter, insteps, nsteps, log, tid, rej>>
TSpec == TInit /\ [][Silent \/ TStep \/ TReject \/ TEndMissing \/ TAccept]_vars
Mark == /\ IF l = Len(Tr) + 2 THEN TLCSet(1, TLCGet(1) \cup {tid}) ELSE TRUE
        /\ IF l = 0 THEN TLCSet(2, TLCGet(2) \cup {<<tid, rej[1], rej[2]>>}) ELSE TRUE
Post == /\ PrintT(<<"ACCEPTED", TLCGet(1)>>) /\ PrintT(<<"REJECTED", TLCGet(2)>>)
OneOnStepPerEnvironmentStep == T!OneOnStepPerEnvironmentStep
IterationCallbacksInOrder == T!IterationCallbacksInOrder
=============================================================================
