----------------------------- MODULE Trace_Eval -----------------------------
(* Case validation of average_reward (C19): each case =                         *)
(*   [cfg, E |-> num_episodes, cap |-> step cap (or a bound when None), meanE |-> round(E * returned mean)] *)
EXTENDS Integers, Sequences, FiniteSets, TLC, TLCExt, Json, IOUtils
VARIABLES cfg, tid, l, rej
Ev == INSTANCE Eval
vars == <<cfg, tid, l, rej>>
Cases == JsonDeserialize(IOEnv.TRACE_FILE)
TInit == /\ TLCSet(1, {}) /\ TLCSet(2, {})
         /\ tid \in 1..Len(Cases) /\ l = 1 /\ rej = <<>> /\ cfg = Cases[tid].cfg
Clauses == [MeanIsMeanOfEpisodeReturnsToFirstDoneOrCap |-> Cases[tid].meanE \in Ev!Sums(Cases[tid].E, Cases[tid].cap)]
Failed == {n \in DOMAIN Clauses : ~Clauses[n]}
TCheck == /\ l = 1
          /\ IF Failed = {} THEN l' = 2 /\ UNCHANGED rej ELSE l' = 0 /\ rej' = <<1, Failed>>
          /\ UNCHANGED <<cfg, tid>>
TSpec == TInit /\ [][TCheck]_vars
Mark == /\ IF l = 2 THEN TLCSet(1, TLCGet(1) \cup {tid}) ELSE TRUE
        /\ IF l = 0 THEN TLCSet(2, TLCGet(2) \cup {<<tid, rej[1], rej[2]>>}) ELSE TRUE
Post == /\ PrintT(<<"ACCEPTED", TLCGet(1)>>) /\ PrintT(<<"REJECTED", TLCGet(2)>>)
=============================================================================
