------------------------- MODULE Trace_EpisodeStats -------------------------
(* Trace validation of LoggingCallbackStepState.next (C19): one trace =         *)
(*   [an, events |-> << [r, d, st |-> statistics record after the call] >>]     *)
EXTENDS Integers, Sequences, FiniteSets, TLC, TLCExt, Json, IOUtils
VARIABLES st, h, tid, l, rej
S == INSTANCE EpisodeStats
vars == <<st, h, tid, l, rej>>
Traces == JsonDeserialize(IOEnv.TRACE_FILE)
Tr == Traces[tid].events
An == Traces[tid].an
TInit == /\ TLCSet(1, {}) /\ TLCSet(2, {})
         /\ tid \in 1..Len(Traces) /\ l = 1 /\ rej = <<>> /\ st = S!InitStats /\ h = <<>>
Clauses(ev) ==
  LET n == S!NextStats(st, ev.r, ev.d, An) IN
  [StepCountAdvancesByOne               |-> ev.st.step = n.step,
   EpisodeReturnRestartsAfterEpisodeEnd |-> ev.st.ret = n.ret,
   EpisodeLengthRestartsAfterEpisodeEnd |-> ev.st.len = n.len,
   LatchIsDone                          |-> ev.st.latch = n.latch,
   AverageReturnBlendedOnlyAtEpisodeEnd |-> ev.st.avgR = n.avgR,
   AverageLengthBlendedOnlyAtEpisodeEnd |-> ev.st.avgL = n.avgL]
Failed(ev) == LET c == Clauses(ev) IN {n \in DOMAIN c : ~c[n]}
TStep == /\ l >= 1 /\ l <= Len(Tr) /\ Failed(Tr[l]) = {}
         /\ st' = S!NextStats(st, Tr[l].r, Tr[l].d, An)
         /\ h' = Append(h, [r |-> Tr[l].r, d |-> Tr[l].d])
         /\ l' = l + 1 /\ UNCHANGED <<tid, rej>>
TReject == /\ l >= 1 /\ l <= Len(Tr) /\ Failed(Tr[l]) # {}
           /\ rej' = <<l, Failed(Tr[l])>> /\ l' = 0 /\ UNCHANGED <<st, h, tid>>
TSpec == TInit /\ [][TStep \/ TReject]_vars
Mark == /\ IF l = Len(Tr) + 1 THEN TLCSet(1, TLCGet(1) \cup {tid}) ELSE TRUE
        /\ IF l = 0 THEN TLCSet(2, TLCGet(2) \cup {<<tid, rej[1], rej[2]>>}) ELSE TRUE
Post == /\ PrintT(<<"ACCEPTED", TLCGet(1)>>) /\ PrintT(<<"REJECTED", TLCGet(2)>>)
\* the declarative reading holds in every state of every trace
Faithful == S!Faithful(st, h, An)
=============================================================================
