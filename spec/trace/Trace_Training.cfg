SPECIFICATION TSpec
CONSTRAINT Mark
POSTCONDITION Post
INVARIANT OneOnStepPerEnvironmentStep
INVARIANT IterationCallbacksInOrder
CHECK_DEADLOCK FALSE
