----------------------------- MODULE Trace_Losses -----------------------------
(* Case validation for C07 / C08: each case = one call of a real loss function   *)
(* on tabular inputs; real-valued results are integers in units of 1e-5.         *)
EXTENDS Integers, Sequences, FiniteSets, TLC, TLCExt, Json, IOUtils
VARIABLES tid, l, rej
L == INSTANCE Losses
vars == <<tid, l, rej>>
Cases == JsonDeserialize(IOEnv.TRACE_FILE)
Ev == Cases[tid].ev
TInit == /\ TLCSet(1, {}) /\ TLCSet(2, {}) /\ tid \in 1..Len(Cases) /\ l = 1 /\ rej = <<>>
AtomClauses(ev) == [n \in DOMAIN ev.atoms |-> ev.atoms[n]]
B(c) == IF "rows" \in DOMAIN c THEN Len(c.rows) ELSE Len(c.S)
Clauses(ev) ==
  LET c == ev.c IN
  CASE ev.ev = "dqn" ->
         [LossIsHalvedMeanSquaredErrorAgainstDoubleDqnTarget |-> L!Close5(ev.loss_x, L!DqnLoss8B(c), 8 * B(c)),
          GradientIsSemiGradientOfOnlineNetworkOnly |->
              \A o \in 1..Len(c.Qon) : \A a \in 1..Len(c.Qon[o]) : L!Close5(ev.grad_x[o][a], L!DqnGrad2B(c, o, a), 2 * B(c)),
          TargetBootstrapsThroughTruncationNotTermination |-> \A i \in 1..B(c) : L!MaskAgrees(c.rows[i])]
    [] ev.ev = "sac" ->
         [QLossIsHalvedMSEOfBothCriticsAgainstSoftTarget |-> L!Close5(ev.loss_x, L!SacQLoss128B(c), 128 * B(c))]
    [] ev.ev = "ppo" ->
         [PolicyLossIsClippedSurrogate      |-> L!NormOK(c) /\ L!Close5(ev.policy_x, L!PpoPolicy4B(c), 4 * B(c)),
          ValueLossIsPPO2ValueObjective     |-> L!Close5(ev.value_x, L!Value32B(c), 32 * B(c)),
          EntropyLossIsNegativeMeanEntropy  |-> L!Close5(ev.entropy_x, L!Entropy4B(c), 4 * B(c)),
          TotalIsWeightedSum                |-> L!Close5(ev.total_x, L!PpoTotal64B(c), 64 * B(c)),
          NoPolicyGradientOutsideClipInterval |-> \A i \in 1..B(c) : ev.gsupport[i] = L!GradActive(c.S[i].rq, L!NormA(c)[i]),
          ApproxKLIsZeroOnPolicy            |-> L!OnPolicy(c) => L!Abs(ev.kl_x) <= 2]
    [] ev.ev = "a2c" ->
         [PolicyLossIsMinusMeanLogProbTimesAdvantage |-> L!NormOK(c) /\ L!Close5(ev.policy_x, L!PgPolicy4B(c), 4 * B(c)),
          ValueLossIsHalvedMSE              |-> L!Close5(ev.value_x, L!PgValue32B(c), 32 * B(c)),
          EntropyLossIsNegativeMeanEntropy  |-> L!Close5(ev.entropy_x, L!Entropy4B(c), 4 * B(c)),
          TotalIsWeightedSum                |-> L!Close5(ev.total_x, L!A2cTotal64B(c), 64 * B(c))]
    [] ev.ev = "reinforce" ->
         [PolicyLossIsMinusMeanLogProbTimesAdvantage |-> L!NormOK(c) /\ L!Close5(ev.policy_x, L!PgPolicy4B(c), 4 * B(c)),
          ValueLossIsHalvedMSE              |-> L!Close5(ev.value_x, L!PgValue32B(c), 32 * B(c)),
          TotalIsWeightedSum                |-> L!Close5(ev.total_x, L!ReinforceTotal64B(c), 64 * B(c))]
    \* "optim": the optimiser clause; "identity": on-policy identities on a buffer filled by the real collector - both carry
    \* harness-evaluated atoms only
    [] OTHER -> [CaseIsNamed |-> ev.ev \in {"optim", "identity"}]
AllFailed(ev) == LET c == Clauses(ev) a == AtomClauses(ev) IN {n \in DOMAIN c : ~c[n]} \cup {n \in DOMAIN a : ~a[n]}
TCheck == /\ l = 1
          /\ IF AllFailed(Ev) = {} THEN l' = 2 /\ UNCHANGED rej ELSE l' = 0 /\ rej' = <<1, AllFailed(Ev)>>
          /\ UNCHANGED tid
TSpec == TInit /\ [][TCheck]_vars
Mark == /\ IF l = 2 THEN TLCSet(1, TLCGet(1) \cup {tid}) ELSE TRUE
        /\ IF l = 0 THEN TLCSet(2, TLCGet(2) \cup {<<tid, rej[1], rej[2]>>}) ELSE TRUE
Post == /\ PrintT(<<"ACCEPTED", TLCGet(1)>>) /\ PrintT(<<"REJECTED", TLCGet(2)>>)
=============================================================================
