----------------------------- MODULE Trace_Atoms -----------------------------
(* Cases that carry only harness-evaluated atoms (boolean facts about real-valued *)
(* quantities for which there is no discrete model): a case is accepted iff every *)
(* atom is TRUE; the names of the false atoms are reported.                       *)
EXTENDS Integers, Sequences, FiniteSets, TLC, TLCExt, Json, IOUtils
VARIABLES tid, l, rej
vars == <<tid, l, rej>>
Cases == JsonDeserialize(IOEnv.TRACE_FILE)
TInit == /\ TLCSet(1, {}) /\ TLCSet(2, {}) /\ tid \in 1..Len(Cases) /\ l = 1 /\ rej = <<>>
Failed == {n \in DOMAIN Cases[tid].atoms : ~Cases[tid].atoms[n]}
TCheck == /\ l = 1
          /\ IF Failed = {} THEN l' = 2 /\ UNCHANGED rej ELSE l' = 0 /\ rej' = <<1, Failed>>
          /\ UNCHANGED tid
TSpec == TInit /\ [][TCheck]_vars
Mark == /\ IF l = 2 THEN TLCSet(1, TLCGet(1) \cup {tid}) ELSE TRUE
        /\ IF l = 0 THEN TLCSet(2, TLCGet(2) \cup {<<tid, rej[1], rej[2]>>}) ELSE TRUE
Post == /\ PrintT(<<"ACCEPTED", TLCGet(1)>>) /\ PrintT(<<"REJECTED", TLCGet(2)>>)
=============================================================================
