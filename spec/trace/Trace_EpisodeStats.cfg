SPECIFICATION TSpec
CONSTRAINT Mark
POSTCONDITION Post
INVARIANT Faithful
CHECK_DEADLOCK FALSE
