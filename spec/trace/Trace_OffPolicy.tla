--------------------------- MODULE Trace_OffPolicy ---------------------------
(* Trace validation for the off-policy collector (C05, C12b).  One trace = one  *)
(* environment stream of a real DQN / SAC run (reset, then iterations):         *)
(*   [cfg, cap |-> observed ring size,                                          *)
(*    events |-> << [ev |-> "row", obs, nobs, act, rew, done, timeout, pstate]  *)
(*               | [ev |-> "snap", k, pos, s, cnt, ps] >>]                      *)
(* "row" events are the ring rows written since the previous snapshot, in       *)
(* insertion order; "snap" k = 0 is the state returned by reset() (after        *)
(* warm-up), k >= 1 the state after the k-th iteration.  The initial state and  *)
(* reset draws are not logged: they are inferred.                               *)
EXTENDS Integers, Sequences, FiniteSets, TLC, TLCExt, Json, IOUtils

VARIABLES cfg, es, ps, ring, hist, phase, iters, inphase, stats, tid, l, rej
O == INSTANCE OffPolicy
M == INSTANCE MDP
S == INSTANCE EpisodeStats
vars == <<cfg, es, ps, ring, hist, phase, iters, inphase, stats, tid, l, rej>>

Traces == JsonDeserialize(IOEnv.TRACE_FILE)
Tr == Traces[tid].events
ICfg(t) == Traces[t].cfg

TInit == /\ TLCSet(1, {}) /\ TLCSet(2, {})
         /\ tid \in 1..Len(Traces) /\ l = 1 /\ rej = <<>> /\ stats = S!InitStats
         /\ \E s0 \in {ICfg(tid).Init[j] : j \in 1..Len(ICfg(tid).Init)} : O!Init(ICfg(tid), s0)

RowClauses(ev) ==
  LET f == O!StepFacts(es, ev.act) IN
  [ObsIsTheOneActedOn            |-> ev.obs = M!WObs(es),
   ActionIsPolicyChoice          |-> ev.act \in O!Cands(O!PIdx(M!WObs(es))),
   RewardIsOfExecutedClippedAction |-> ev.rew = f.so.rew,
   SuccessorObsIsPreReset        |-> ev.nobs = M!WObs(f.so.nx),
   DoneIsTermOrTrunc             |-> ev.done = f.done,
   TimeoutIffTruncatedOnly       |-> ev.timeout = f.timeout,
   PolicyStateIsPreStep          |-> ev.pstate = ps,
   StepBelongsToThisPhase        |-> IF phase = "warm" THEN inphase < cfg.lstarts ELSE inphase < cfg.nsteps]
SnapClauses(ev) ==
  [SnapshotAtPhaseEnd            |-> IF phase = "warm" THEN ev.k = 0 /\ inphase = cfg.lstarts
                                     ELSE ev.k = iters + 1 /\ inphase = cfg.nsteps,
   PositionIsWarmupPlusIterations |-> ev.pos = cfg.lstarts + ev.k * cfg.nsteps,
   CapacityIsPerEnvironmentShare |-> Traces[tid].cap = O!Cap,
   CarriedEnvStateMatches        |-> es = [s |-> ev.s, cnt |-> ev.cnt],
   CarriedPolicyStateMatches     |-> ps = ev.ps,
   StatsStepCountIsCumulative    |-> ev.stats.step = stats.step,
   StatsEpisodeAccumulatorsSinceLastDone |-> ev.stats.ret = stats.ret /\ ev.stats.len = stats.len /\ ev.stats.latch = stats.latch,
   StatsAveragesUpdatedOnlyAtEpisodeEnds |-> ev.stats.avgR = stats.avgR /\ ev.stats.avgL = stats.avgL]
Failed(ev) == LET c == IF ev.ev = "row" THEN RowClauses(ev) ELSE SnapClauses(ev) IN {n \in DOMAIN c : ~c[n]}

TRow == /\ l >= 1 /\ l <= Len(Tr) /\ Tr[l].ev = "row" /\ Failed(Tr[l]) = {}
        /\ \E s0 \in M!InitSet : IF phase = "warm" THEN O!WarmStep(Tr[l].act, s0) ELSE O!RunStep(Tr[l].act, s0)
        \* the logging callback is told this step's stored reward and done flag (warm-up steps included)
        /\ LET f == O!StepFacts(es, Tr[l].act) IN stats' = S!NextStats(stats, f.so.rew, f.done, cfg.an)
        /\ l' = l + 1 /\ UNCHANGED <<tid, rej>>
TSnap == /\ l >= 1 /\ l <= Len(Tr) /\ Tr[l].ev = "snap" /\ Failed(Tr[l]) = {}
         /\ IF phase = "warm" THEN O!EndWarm ELSE O!EndIter
         /\ l' = l + 1 /\ UNCHANGED <<tid, rej, stats>>
TReject == /\ l >= 1 /\ l <= Len(Tr) /\ Failed(Tr[l]) # {}
           /\ rej' = <<l, Failed(Tr[l])>> /\ l' = 0
           /\ UNCHANGED <<cfg, es, ps, ring, hist, phase, iters, inphase, stats, tid>>
TNext == TRow \/ TSnap \/ TReject
TSpec == TInit /\ [][TNext]_vars

Mark == /\ IF l = Len(Tr) + 1 THEN TLCSet(1, TLCGet(1) \cup {tid}) ELSE TRUE
        /\ IF l = 0 THEN TLCSet(2, TLCGet(2) \cup {<<tid, rej[1], rej[2]>>}) ELSE TRUE
Post == /\ PrintT(<<"ACCEPTED", TLCGet(1)>>)
        /\ PrintT(<<"REJECTED", TLCGet(2)>>)

StoredIsWhatHappened == O!StoredIsWhatHappened
WarmUpCount == O!WarmUpCount
TimeoutIffTruncatedOnly == O!TimeoutIffTruncatedOnly
=============================================================================
