SPECIFICATION TSpec
CONSTRAINT Mark
POSTCONDITION Post
INVARIANT ObsIsOfState
INVARIANT FreshIffDone
INVARIANT CountersAreClock
INVARIANT NeverPastLimit
CHECK_DEADLOCK FALSE
