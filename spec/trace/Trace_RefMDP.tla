----------------------------- MODULE Trace_RefMDP -----------------------------
(* Case validation for C17: each case is one probe                              *)
(*   [env, ev |-> "probe", regions.., term, rew_m]  or  [env, ev |-> "reset", atoms] *)
(* of a lerax classic-control environment placed next to a threshold (terminal  *)
(* flag and reward as computed by the real terminal / reward components on the  *)
(* real successor), or a MuJoCo / reset / parity case carrying atoms only       *)
(* ("parity": differential comparison with the installed Gymnasium reference,  *)
(* judged numerically by the harness, lvf/props/gym_parity.py).                *)
EXTENDS Integers, Sequences, FiniteSets, TLC, TLCExt, Json, IOUtils
VARIABLES tid, l, rej
R == INSTANCE RefMDP
vars == <<tid, l, rej>>
Cases == JsonDeserialize(IOEnv.TRACE_FILE)
Ev == Cases[tid].ev
TInit == /\ TLCSet(1, {}) /\ TLCSet(2, {}) /\ tid \in 1..Len(Cases) /\ l = 1 /\ rej = <<>>
Clauses(ev) ==
  IF ev.ev = "probe"
  THEN [TerminationPredicateIsGymnasiums      |-> ev.term = R!Terminal(ev.env, ev),
        RewardOfEveryTransitionIsGymnasiums   |-> ev.rew_m = R!Reward(ev.env, ev),
        LeftWallStopsTheCar                   |-> R!WallRule(ev.env, ev)]
  ELSE IF ev.ev = "limits"
  THEN [StateLimitsAreGymnasiums |-> ev.xout = R!LimitX(ev.xin) /\ ev.vout = R!LimitV(ev.xin, ev.vin)]
  ELSE [CaseIsNamed |-> ev.ev \in {"reset", "mujoco", "parity"}]
Failed(ev) == LET c == Clauses(ev) IN {n \in DOMAIN c : ~c[n]} \cup {n \in DOMAIN ev.atoms : ~ev.atoms[n]}
TCheck == /\ l = 1
          /\ IF Failed(Ev) = {} THEN l' = 2 /\ UNCHANGED rej ELSE l' = 0 /\ rej' = <<1, Failed(Ev)>>
          /\ UNCHANGED tid
TSpec == TInit /\ [][TCheck]_vars
Mark == /\ IF l = 2 THEN TLCSet(1, TLCGet(1) \cup {tid}) ELSE TRUE
        /\ IF l = 0 THEN TLCSet(2, TLCGet(2) \cup {<<tid, rej[1], rej[2]>>}) ELSE TRUE
Post == /\ PrintT(<<"ACCEPTED", TLCGet(1)>>) /\ PrintT(<<"REJECTED", TLCGet(2)>>)
=============================================================================
