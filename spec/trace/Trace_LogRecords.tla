-------------------------- MODULE Trace_LogRecords --------------------------
(* Iteration-level log records (C19): one trace = one training run,             *)
(*   [N, iters |-> << [stats |-> <<per-environment statistics>>,                *)
(*                     rec |-> [n, step, retN, lenN]] >>]                       *)
(* rec is what reached the backend after that iteration: n = number of records  *)
(* so far, step = the step argument, retN / lenN = N * SD * logged mean.        *)
(* rec.others: the same four numbers <<n, step, retN, lenN>> for every OTHER     *)
(* backend the callback was constructed with (it fans out to a sequence).       *)
EXTENDS Integers, Sequences, FiniteSets, TLC, TLCExt, Json, IOUtils
VARIABLES k, laststep, tid, l, rej
vars == <<k, laststep, tid, l, rej>>
Traces == JsonDeserialize(IOEnv.TRACE_FILE)
Tr == Traces[tid].iters
NE == Traces[tid].N
RECURSIVE SumF(_, _, _)
SumF(seq, f, i) == IF i = 0 THEN 0 ELSE seq[i][f] + SumF(seq, f, i - 1)
Abs(x) == IF x < 0 THEN -x ELSE x
TInit == /\ TLCSet(1, {}) /\ TLCSet(2, {})
         /\ tid \in 1..Len(Traces) /\ l = 1 /\ rej = <<>> /\ k = 0 /\ laststep = -1
Clauses(ev) ==
  [OneRecordPerIterationInOrder       |-> ev.rec.n = k + 1,
   StepIsCumulativeStepsOverAllEnvs   |-> ev.rec.step = SumF(ev.stats, "step", NE),
   StepsStrictlyIncrease              |-> ev.rec.step > laststep,
   \* the logged mean is a float32: N * SD * mean is the exact sum up to a few units in the last place of the sum
   \* (2^-21 relative; a wrong aggregate - max, one environment only, a sum - is off by whole multiples of SD)
   LoggedReturnIsMeanOverEnvs         |-> Abs(ev.rec.retN - SumF(ev.stats, "avgR", NE)) <= 1 + Abs(SumF(ev.stats, "avgR", NE)) \div 2097152,
   LoggedLengthIsMeanOverEnvs         |-> Abs(ev.rec.lenN - SumF(ev.stats, "avgL", NE)) <= 1 + Abs(SumF(ev.stats, "avgL", NE)) \div 2097152,
   EveryBackendGetsEveryRecord        |-> \A i \in 1..Len(ev.rec.others) :
                                            ev.rec.others[i] = <<ev.rec.n, ev.rec.step, ev.rec.retN, ev.rec.lenN>>]
Failed(ev) == LET c == Clauses(ev) IN {n \in DOMAIN c : ~c[n]}
TStep == /\ l >= 1 /\ l <= Len(Tr) /\ Failed(Tr[l]) = {}
         /\ k' = k + 1 /\ laststep' = Tr[l].rec.step /\ l' = l + 1 /\ UNCHANGED <<tid, rej>>
TReject == /\ l >= 1 /\ l <= Len(Tr) /\ Failed(Tr[l]) # {}
           /\ rej' = <<l, Failed(Tr[l])>> /\ l' = 0 /\ UNCHANGED <<k, laststep, tid>>
TSpec == TInit /\ [][TStep \/ TReject]_vars
Mark == /\ IF l = Len(Tr) + 1 THEN TLCSet(1, TLCGet(1) \cup {tid}) ELSE TRUE
        /\ IF l = 0 THEN TLCSet(2, TLCGet(2) \cup {<<tid, rej[1], rej[2]>>}) ELSE TRUE
Post == /\ PrintT(<<"ACCEPTED", TLCGet(1)>>) /\ PrintT(<<"REJECTED", TLCGet(2)>>)
=============================================================================
