-------------------------- MODULE Trace_Components --------------------------
(* C13: functional components of really constructed wrapper stacks, probed in   *)
(* arbitrary wrapped states (s, counters) with arbitrary actions, against the   *)
(* wrapper semantics of MDP.tla.  One trace = one stack over one table MDP:     *)
(*   [cfg, spaces |-> [akind, alo, ahi, okind, olo, ohi, on], unwrapped_ok,      *)
(*    events |-> << [ev |-> "probe", s, cnt, a, nx_s, nx_cnt, rew, term, trunc,  *)
(*                   obs, obs2, mask, info_idx, info_s, info_s2]                *)
(*                | [ev |-> "initial", s, cnt, obs] >>]                         *)
EXTENDS Integers, Sequences, FiniteSets, TLC, TLCExt, Json, IOUtils
VARIABLES cfg, tid, l, rej
M == INSTANCE MDP
vars == <<cfg, tid, l, rej>>
Traces == JsonDeserialize(IOEnv.TRACE_FILE)
Tr == Traces[tid].events
Sp == Traces[tid].spaces
TInit == /\ TLCSet(1, {}) /\ TLCSet(2, {})
         /\ tid \in 1..Len(Traces) /\ l = 0 /\ rej = <<>> /\ cfg = Traces[tid].cfg

SpaceClauses ==
  LET a == M!ASpace(M!Depth) o == M!OSpace(M!Depth) IN
  [AdvertisedActionSpaceIsDeclared      |-> Sp.akind = a.kind /\ (a.kind = "box" => Sp.alo = a.lo /\ Sp.ahi = a.hi)
                                            /\ (a.kind = "disc" => Sp.an = cfg.nA),
   AdvertisedObservationSpaceIsDeclared |-> Sp.okind = o.kind /\ (o.kind = "box" => Sp.olo = o.lo /\ Sp.ohi = o.hi)
                                            /\ (o.kind = "disc" => Sp.on = o.n),
   UnwrappedReachesInnermostEnvAndState |-> Traces[tid].unwrapped_ok]

Clauses(ev) ==
  LET ws == [s |-> ev.s, cnt |-> ev.cnt] IN
  IF ev.ev = "initial"
  THEN [InitialIsInnerInitialWithZeroCounters |-> M!IsInitialState(ws),
        ObservationIsDeclaredMapOfInner       |-> ev.obs = M!WObs(ws)]
  ELSE LET nx == [s |-> ev.nx_s, cnt |-> ev.nx_cnt] IN
       [TransitionIsInnerOnMappedAction      |-> nx = M!WTransition(ws, ev.a),
        RewardIsDeclaredMapOfInnerReward     |-> ev.rew = M!WReward(ws, ev.a, M!WTransition(ws, ev.a)),
        TerminalPassesThrough                |-> ev.term = M!WTerminal(M!WTransition(ws, ev.a)),
        TruncateIsInnerOrExactTimeLimit      |-> ev.trunc = M!WTruncate(M!WTransition(ws, ev.a)),
        ObservationIsDeclaredMapOfInner      |-> ev.obs = M!WObs(ws) /\ ev.obs2 = M!WObs(M!WTransition(ws, ev.a)),
        MaskPassesThrough                    |-> ev.mask = M!WMask(ws),
        InfoSeesMappedActionAndInnerStates   |-> ev.info_idx = M!WIdx(ev.a) /\ ev.info_s = ws.s
                                                 /\ ev.info_s2 = M!WTransition(ws, ev.a).s]
FailedAt(i) == LET c == IF i = 0 THEN SpaceClauses ELSE Clauses(Tr[i]) IN {n \in DOMAIN c : ~c[n]}

TStep == /\ l >= 0 /\ l <= Len(Tr) /\ FailedAt(l) = {}
         /\ l' = l + 1 /\ UNCHANGED <<cfg, tid, rej>>
TReject == /\ l >= 0 /\ l <= Len(Tr) /\ FailedAt(l) # {}
           /\ rej' = <<l, FailedAt(l)>> /\ l' = -1 /\ UNCHANGED <<cfg, tid>>
TSpec == TInit /\ [][TStep \/ TReject]_vars
Mark == /\ IF l = Len(Tr) + 1 THEN TLCSet(1, TLCGet(1) \cup {tid}) ELSE TRUE
        /\ IF l = -1 THEN TLCSet(2, TLCGet(2) \cup {<<tid, rej[1], rej[2]>>}) ELSE TRUE
Post == /\ PrintT(<<"ACCEPTED", TLCGet(1)>>) /\ PrintT(<<"REJECTED", TLCGet(2)>>)
=============================================================================
