---------------------------- MODULE Trace_Spaces ----------------------------
(* Case validation for C14.  One trace = one real space object:                 *)
(*   [sp |-> space term, events |-> <<                                          *)
(*      [ev |-> "contains", v, res, scalar, raised]   contains(x) / x in space  *)
(*      [ev |-> "canonical", v]   [ev |-> "sample", v, mask]                    *)
(*      [ev |-> "flatten", v, len, flat_size]                                   *)
(*      [ev |-> "eq", other |-> space term, res, hash_ok, hash_equal]           *)
(*      [ev |-> "eq_near", res, res_sym]   == against a space with one bound nudged *)
(*      [ev |-> "gym", ok, eq] >>]                                              *)
EXTENDS Integers, Sequences, FiniteSets, TLC, TLCExt, Json, IOUtils
VARIABLES tid, l, rej
S == INSTANCE Spaces
vars == <<tid, l, rej>>
Traces == JsonDeserialize(IOEnv.TRACE_FILE)
Tr == Traces[tid].events
Sp == Traces[tid].sp
TInit == /\ TLCSet(1, {}) /\ TLCSet(2, {}) /\ tid \in 1..Len(Traces) /\ l = 1 /\ rej = <<>>
Clauses(ev) ==
  CASE ev.ev = "contains" ->
         [ContainsAnswersInsteadOfRaising |-> ~ev.raised,
          ContainsIsAScalarBoolean        |-> ev.raised \/ ev.scalar,
          MembershipIsExact               |-> ev.raised \/ ~ev.scalar \/ (ev.res = S!Contains(Sp, ev.v))]
    [] ev.ev = "canonical" -> [CanonicalIsAMember |-> S!Contains(Sp, ev.v)]
    [] ev.ev = "sample" ->
         [SampleIsAMember     |-> S!Contains(Sp, ev.v),
          SampleHonoursMask   |-> ev.mask = <<>> \/ S!MaskAllows(ev.mask, ev.v)]
    [] ev.ev = "flatten" ->
         [FlattenReturnsFlatSizeNumbers |-> ev.len = S!FlatSize(Sp) /\ ev.flat_size = S!FlatSize(Sp),
          FlattenDeterminesTheSample    |-> S!Shaped(Sp, ev.v) /\ ev.vals = S!FlattenIn(Sp, ev.v)]
    [] ev.ev = "eq" ->
         \* `open': the property text does not fix the verdict for this pair (same Dict keys in another order); then only the
         \* coherence of the real answers is demanded: whatever compares equal must hash equally
         [EqualityIsStructural   |-> ev.open \/ (ev.res = S!Eq(Sp, ev.other)),
          HashingDoesNotRaise    |-> ev.hash_ok,
          EqualSpacesHashEqually |-> (S!Eq(Sp, ev.other) \/ ev.res) => ev.hash_equal]
    [] ev.ev = "eq_near" ->   \* the same structure with one Box bound moved by 2e-6 relative: another space, in both directions
         [EqualityIsExactInTheParameters |-> ~ev.res /\ ~ev.res_sym]
    [] OTHER ->
         [GymRoundTripSucceeds       |-> ev.ok,
          GymRoundTripPreservesSpace |-> ev.ok => ev.eq]
Failed(ev) == LET c == Clauses(ev) IN {n \in DOMAIN c : ~c[n]}
TStep == /\ l >= 1 /\ l <= Len(Tr) /\ Failed(Tr[l]) = {} /\ l' = l + 1 /\ UNCHANGED <<tid, rej>>
\* a failing event is recorded, then validation continues with the next event (every probe gets its own verdict)
TReject == /\ l >= 1 /\ l <= Len(Tr) /\ Failed(Tr[l]) # {}
           /\ rej' = <<l, Failed(Tr[l])>> /\ l' = 0 /\ UNCHANGED tid
TSpec == TInit /\ [][TStep \/ TReject]_vars
Mark == /\ IF l = Len(Tr) + 1 THEN TLCSet(1, TLCGet(1) \cup {tid}) ELSE TRUE
        /\ IF l = 0 THEN TLCSet(2, TLCGet(2) \cup {<<tid, rej[1], rej[2]>>}) ELSE TRUE
Post == /\ PrintT(<<"ACCEPTED", TLCGet(1)>>) /\ PrintT(<<"REJECTED", TLCGet(2)>>)
=============================================================================
