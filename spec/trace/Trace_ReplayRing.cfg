SPECIFICATION TSpec
CONSTRAINT Mark
POSTCONDITION Post
INVARIANT Recent
INVARIANT ValidAreStored
CHECK_DEADLOCK FALSE
