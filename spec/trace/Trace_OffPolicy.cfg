SPECIFICATION TSpec
CONSTRAINT Mark
POSTCONDITION Post
INVARIANT StoredIsWhatHappened
INVARIANT WarmUpCount
INVARIANT TimeoutIffTruncatedOnly
CHECK_DEADLOCK FALSE
