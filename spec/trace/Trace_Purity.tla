----------------------------- MODULE Trace_Purity -----------------------------
(* C11: one trace = one family of recorded learn() runs of one algorithm /       *)
(* configuration:  [runs |-> << [key, obs, rep, bits, cls, in_before, in_after] >>] *)
(*  key  run key id        obs  observer-set id        rep  repetition number     *)
(*  bits interned digest of all parameter leaves of the returned policy (equal    *)
(*       id <=> bit-identical)                                                    *)
(*  cls  tolerance class of the returned parameters (equal id <=> equal to 1e-5;  *)
(*       different observer sets compile to different XLA programs)               *)
(*  in_before / in_after  digest of the policy object passed in                   *)
EXTENDS Integers, Sequences, FiniteSets, TLC, TLCExt, Json, IOUtils
VARIABLES tid, l, rej
vars == <<tid, l, rej>>
Traces == JsonDeserialize(IOEnv.TRACE_FILE)
Rs == Traces[tid].runs
N == Len(Rs)
TInit == /\ TLCSet(1, {}) /\ TLCSet(2, {}) /\ tid \in 1..Len(Traces) /\ l = 1 /\ rej = <<>>
Clauses ==
  [SameInputsGiveBitIdenticalParameters |-> \A i, j \in 1..N : (Rs[i].key = Rs[j].key /\ Rs[i].obs = Rs[j].obs) => Rs[i].bits = Rs[j].bits,
   ObserversDoNotChangeTheTrainedPolicy |-> \A i, j \in 1..N : Rs[i].key = Rs[j].key => Rs[i].cls = Rs[j].cls,
   DifferentKeysGiveDifferentRuns       |-> \A i, j \in 1..N : Rs[i].key # Rs[j].key => Rs[i].cls # Rs[j].cls,
   PolicyPassedInIsLeftUntouched        |-> \A i \in 1..N : Rs[i].in_before = Rs[i].in_after,
   FamilyIsNotVacuous                   |-> /\ \E i, j \in 1..N : i # j /\ Rs[i].key = Rs[j].key /\ Rs[i].obs = Rs[j].obs
                                            /\ \E i, j \in 1..N : Rs[i].key = Rs[j].key /\ Rs[i].obs # Rs[j].obs
                                            /\ \E i, j \in 1..N : Rs[i].key # Rs[j].key]
Failed == {n \in DOMAIN Clauses : ~Clauses[n]}
TCheck == /\ l = 1
          /\ IF Failed = {} THEN l' = 2 /\ UNCHANGED rej ELSE l' = 0 /\ rej' = <<1, Failed>>
          /\ UNCHANGED tid
TSpec == TInit /\ [][TCheck]_vars
Mark == /\ IF l = 2 THEN TLCSet(1, TLCGet(1) \cup {tid}) ELSE TRUE
        /\ IF l = 0 THEN TLCSet(2, TLCGet(2) \cup {<<tid, rej[1], rej[2]>>}) ELSE TRUE
Post == /\ PrintT(<<"ACCEPTED", TLCGet(1)>>) /\ PrintT(<<"REJECTED", TLCGet(2)>>)
=============================================================================
