----------------------------- MODULE Trace_Laws -----------------------------
(* Case validation for C15 / C16 (discrete laws, masking, policies).  Each case *)
(* holds one event:                                                             *)
(*  "cat"    [w, m, probs (1e-6 units), mode, samples, atoms]  Categorical(...).mask(m)    *)
(*  "bern"   [a (quarters), m, probs1, mode, samples, atoms]   Bernoulli(probs=a/4).mask(m) *)
(*  "multi"  [dims, w, m, joint |-> <<[x, p]>>, mode, samples, atoms] MultiCategorical      *)
(*  "policy" [mode, comps |-> <<[ranks, m, a]>>, atoms]        a policy's choice per component *)
(* atoms: booleans evaluated by the harness on real-valued identities            *)
(* (prob = exp(log_prob), product log-prob / entropy = sums, flat = sequence     *)
(* parameterisation, sample_and_log_prob consistency).                           *)
EXTENDS Integers, Sequences, FiniteSets, TLC, TLCExt, Json, IOUtils
VARIABLES tid, l, rej
L == INSTANCE DiscreteLaws
vars == <<tid, l, rej>>
Cases == JsonDeserialize(IOEnv.TRACE_FILE)
Ev == Cases[tid].ev
TInit == /\ TLCSet(1, {}) /\ TLCSet(2, {}) /\ tid \in 1..Len(Cases) /\ l = 1 /\ rej = <<>>
AtomClauses(ev) == [n \in DOMAIN ev.atoms |-> ev.atoms[n]]
Clauses(ev) ==
  CASE ev.ev = "cat" ->
         [MaskedActionsHaveProbabilityZero |-> \A i \in 1..Len(ev.w) : ~ev.m[i] => ev.probs[i] = 0,
          RemainingRenormalisedProportionally |-> \A i \in 1..Len(ev.w) : L!Close(ev.probs[i], L!P(ev.w, ev.m, i)),
          ModeIsAnAllowedMostLikelyAction  |-> ev.mode + 1 \in L!ArgMax(ev.w, ev.m),
          SamplesAreAllowedActions         |-> \A k \in 1..Len(ev.samples) : ev.samples[k] + 1 \in L!Allowed(ev.m)]
    [] ev.ev = "bern" ->
         [MaskedComponentsAreNeverSet |-> /\ \A i \in 1..Len(ev.a) : ~ev.m[i] => ev.probs1[i] = 0 /\ ev.mode[i] = 0
                                          /\ \A k \in 1..Len(ev.samples) : \A i \in 1..Len(ev.a) : ~ev.m[i] => ev.samples[k][i] = 0,
          UnmaskedComponentsKeepTheirLaw |-> \A i \in 1..Len(ev.a) : ev.m[i] => L!Close(ev.probs1[i], <<ev.a[i], 4>>),
          ModeIsMostLikelyValue        |-> \A i \in 1..Len(ev.a) : (ev.m[i] /\ ev.a[i] # 2) => ev.mode[i] = (IF ev.a[i] > 2 THEN 1 ELSE 0)]
    [] ev.ev = "multi" ->
         [JointProbabilityIsProductOfComponents |->
              \A j \in 1..Len(ev.joint) : L!Close(ev.joint[j].p, <<L!ProdNum(ev.w, ev.m, ev.dims, ev.joint[j].x, Len(ev.dims)),
                                                                    L!ProdDen(ev.w, ev.m, ev.dims, Len(ev.dims))>>),
          ModeIsComponentwiseAllowedMostLikely |->
              \A k \in 1..Len(ev.dims) : ev.mode[k] + 1 \in L!ArgMax(L!Piece(ev.w, ev.dims, k), L!Piece(ev.m, ev.dims, k)),
          SamplesAreComponentwiseAllowed |->
              \A s \in 1..Len(ev.samples) : \A k \in 1..Len(ev.dims) : ev.samples[s][k] + 1 \in L!Allowed(L!Piece(ev.m, ev.dims, k))]
    [] ev.ev = "batched" ->   \* parameters with a leading batch dimension: row-wise identities, atoms only
         [CaseNamesABatchableLaw |-> ev.kind \in {"Categorical", "Bernoulli", "MultiCategoricalFlat", "MultiCategoricalSeq", "Normal", "SquashedNormal"}]
    [] ev.ev = "cont" ->   \* continuous laws: nothing discrete to model; only the harness-evaluated atoms are collected
         [CaseNamesAContinuousLaw |-> ev.kind \in {"Normal", "MultivariateNormalDiag", "SquashedNormal", "SquashedMultivariateNormalDiag",
                                                  "MLPSACPolicy"}]     \* the continuous-action policy built on the squashed laws (C16)
    [] OTHER ->
         [MaskedActionNeverChosenAndKeylessIsGreedy |->
              \A c \in 1..Len(ev.comps) : L!ChoiceOK(ev.mode, ev.comps[c].ranks, ev.comps[c].m, ev.comps[c].a)]
AllClauses(ev) == LET c == Clauses(ev) a == AtomClauses(ev) IN
                  {n \in DOMAIN c : ~c[n]} \cup {n \in DOMAIN a : ~a[n]}
TCheck == /\ l = 1
          /\ IF AllClauses(Ev) = {} THEN l' = 2 /\ UNCHANGED rej ELSE l' = 0 /\ rej' = <<1, AllClauses(Ev)>>
          /\ UNCHANGED tid
TSpec == TInit /\ [][TCheck]_vars
Mark == /\ IF l = 2 THEN TLCSet(1, TLCGet(1) \cup {tid}) ELSE TRUE
        /\ IF l = 0 THEN TLCSet(2, TLCGet(2) \cup {<<tid, rej[1], rej[2]>>}) ELSE TRUE
Post == /\ PrintT(<<"ACCEPTED", TLCGet(1)>>) /\ PrintT(<<"REJECTED", TLCGet(2)>>)
=============================================================================
