-------------------------- MODULE Trace_ReplayRing --------------------------
(* Trace validation for lerax.buffer.ReplayBuffer (C06).                        *)
(*   [cap, N, empty |-> codes of a never-written slot,                          *)
(*    events |-> << [ev |-> "add", e, row, slots, pos]                          *)
(*               | [ev |-> "sample", B, rows] >>]                               *)
(* A row is the tuple of codes found in *every* leaf of every field of one slot *)
(* (observation, next observation, action, reward, done, timeout, policy state, *)
(* next policy state); `slots'/`pos' are the projection of ring e after the add. *)
EXTENDS Integers, Sequences, FiniteSets, TLC, TLCExt, Json, IOUtils

VARIABLES cfg, rings, hist, tid, l, rej
R == INSTANCE ReplayRing
vars == <<cfg, rings, hist, tid, l, rej>>

Traces == JsonDeserialize(IOEnv.TRACE_FILE)
Tr == Traces[tid].events

TInit == /\ TLCSet(1, {}) /\ TLCSet(2, {})
         /\ tid \in 1..Len(Traces) /\ l = 1 /\ rej = <<>>
         /\ R!Init([cap |-> Traces[tid].cap, N |-> Traces[tid].N], Traces[tid].empty)

AfterAdd(ev) == [slots |-> [rings[ev.e].slots EXCEPT ![rings[ev.e].pos % cfg.cap] = ev.row], pos |-> rings[ev.e].pos + 1]

Clauses(ev) ==
  IF ev.ev = "add"
  THEN [PositionAdvancesByOne     |-> ev.pos = rings[ev.e].pos + 1,
        RowWrittenIntactAtPosModCap |-> ev.slots[(rings[ev.e].pos % cfg.cap) + 1] = ev.row,
        OtherSlotsUntouched       |-> \A i \in 0..(cfg.cap - 1) :
                                         i # rings[ev.e].pos % cfg.cap => ev.slots[i + 1] = rings[ev.e].slots[i]]
  ELSE [BatchHasRequestedSize     |-> Len(ev.rows) = ev.B,
        SampledRowsAreStoredRows  |-> \A k \in 1..Len(ev.rows) : \E f \in R!FlatValid : R!RowAt(f) = ev.rows[k],
        NeverAnUnwrittenSlot      |-> \A k \in 1..Len(ev.rows) : ev.rows[k] # Traces[tid].empty,
        NoTransitionTwice         |-> \A j, k \in 1..Len(ev.rows) : j # k => ev.rows[j] # ev.rows[k]]
Failed(ev) == LET c == Clauses(ev) IN {n \in DOMAIN c : ~c[n]}

TStep == /\ l >= 1 /\ l <= Len(Tr) /\ Failed(Tr[l]) = {}
         /\ IF Tr[l].ev = "add" THEN R!Add(Tr[l].e, Tr[l].row)
            ELSE UNCHANGED <<cfg, rings, hist>>
         /\ l' = l + 1 /\ UNCHANGED <<tid, rej>>
TReject == /\ l >= 1 /\ l <= Len(Tr) /\ Failed(Tr[l]) # {}
           /\ rej' = <<l, Failed(Tr[l])>> /\ l' = 0
           /\ UNCHANGED <<cfg, rings, hist, tid>>
TNext == TStep \/ TReject
TSpec == TInit /\ [][TNext]_vars

Mark == /\ IF l = Len(Tr) + 1 THEN TLCSet(1, TLCGet(1) \cup {tid}) ELSE TRUE
        /\ IF l = 0 THEN TLCSet(2, TLCGet(2) \cup {<<tid, rej[1], rej[2]>>}) ELSE TRUE
Post == /\ PrintT(<<"ACCEPTED", TLCGet(1)>>)
        /\ PrintT(<<"REJECTED", TLCGet(2)>>)

Recent == R!Recent
ValidAreStored == R!ValidAreStored
=============================================================================
