SPECIFICATION TSpec
CONSTRAINT Mark
POSTCONDITION Post
INVARIANT TargetIsLastMultiple
INVARIANT StepsConsumed
CHECK_DEADLOCK FALSE
