--------------------------- MODULE Trace_OnPolicy ---------------------------
(* Trace validation for the on-policy collector (C04, C03, C12b, C19-rewards). *)
(* One trace = one environment stream of one real rollout:                     *)
(*   [cfg, init |-> [s, cnt, ps], rows |-> <<row>>, final |-> [s, cnt, ps, adv, ret]] *)
(* rows are the RolloutBuffer entries (all fields), final is the carried state  *)
(* after the rollout and the advantages/returns post_collect produced (integers *)
(* in units of 1/2^(2T-1)).  The reset draw after a done row is not logged: it  *)
(* is inferred (\E s0), wrong guesses die at the next row's ObsIsCurrent.       *)
EXTENDS Integers, Sequences, FiniteSets, TLC, TLCExt, Json, IOUtils

VARIABLES cfg, es, ps, rows, adv, ret, seen, stats, tid, l, rej
O == INSTANCE OnPolicy
M == INSTANCE MDP
S == INSTANCE EpisodeStats
vars == <<cfg, es, ps, rows, adv, ret, seen, stats, tid, l, rej>>

Traces == JsonDeserialize(IOEnv.TRACE_FILE)
Tr == Traces[tid].rows
Fin == Traces[tid].final

TInit == /\ TLCSet(1, {}) /\ TLCSet(2, {})
         /\ tid \in 1..Len(Traces) /\ l = 1 /\ rej = <<>>
         /\ stats = Traces[tid].init.stats
         /\ O!Init(Traces[tid].cfg,
                   [s |-> Traces[tid].init.s, cnt |-> Traces[tid].init.cnt], Traces[tid].init.ps)

RowClauses(row) ==
  LET o == M!WObs(es)
      m == M!WMask(es)
      p == O!PIdx(o)
      f == O!StepFacts(es, row.act)
  IN [ObsIsCurrent              |-> row.obs = o,
      MaskIsTheOneOffered       |-> row.mask = m,
      ActionIsPolicyChoice      |-> row.act \in O!Choices(p, m),
      LogpIsOfStoredAction      |-> row.logp = O!LogPOf(p, row.act),
      ValueIsOfObs              |-> row.val = cfg.V[p + 1],
      PolicyStateIsPreStep      |-> row.pstate = ps,
      DoneIsTermOrTrunc         |-> row.done = f.done,
      RewardIsEnvRewardOfClippedActionPlusBootstrapIffTruncatedOnly |-> row.rew = f.rew]
FailedRow(row) == LET c == RowClauses(row) IN {n \in DOMAIN c : ~c[n]}

TStep == /\ l >= 1 /\ l <= Len(Tr) /\ FailedRow(Tr[l]) = {}
         /\ \E s0 \in M!InitSet : O!CollectStep(Tr[l].act, s0)
         \* the logging callback is told the *environment's* reward and the done flag of this step (C19)
         /\ LET f == O!StepFacts(es, Tr[l].act) IN stats' = S!NextStats(stats, f.so.rew, f.done, cfg.an)
         /\ l' = l + 1 /\ UNCHANGED <<tid, rej>>

FinClauses ==
  LET c == O!GaeCase IN
  [CarriedEnvStateMatches    |-> es = [s |-> Fin.s, cnt |-> Fin.cnt],
   CarriedPolicyStateMatches |-> ps = Fin.ps,
   AdvantagesAreGAE          |-> \A t \in 1..cfg.H : Fin.adv[t] = O!G!ScanAdv(c, t),
   ReturnsAreAdvPlusValue    |-> \A t \in 1..cfg.H : Fin.ret[t] = O!G!ScanRet(c, t),
   StatsStepCountIsCumulative          |-> Fin.stats.step = stats.step,
   StatsEpisodeAccumulatorsSinceLastDone |-> Fin.stats.ret = stats.ret /\ Fin.stats.len = stats.len /\ Fin.stats.latch = stats.latch,
   StatsAveragesUpdatedOnlyAtEpisodeEnds |-> Fin.stats.avgR = stats.avgR /\ Fin.stats.avgL = stats.avgL]
FailedFin == LET c == FinClauses IN {n \in DOMAIN c : ~c[n]}

TPost == /\ l = Len(Tr) + 1 /\ FailedFin = {}
         /\ O!PostCollect
         /\ l' = l + 1 /\ UNCHANGED <<tid, rej, stats>>

TReject == /\ l >= 1 /\ l <= Len(Tr) + 1
           /\ LET bad == IF l <= Len(Tr) THEN FailedRow(Tr[l]) ELSE FailedFin IN
              /\ bad # {}
              /\ rej' = <<l, bad>>
           /\ l' = 0
           /\ UNCHANGED <<cfg, es, ps, rows, adv, ret, seen, stats, tid>>

TNext == TStep \/ TPost \/ TReject
TSpec == TInit /\ [][TNext]_vars

Mark == /\ IF l = Len(Tr) + 2 THEN TLCSet(1, TLCGet(1) \cup {tid}) ELSE TRUE
        /\ IF l = 0 THEN TLCSet(2, TLCGet(2) \cup {<<tid, rej[1], rej[2]>>}) ELSE TRUE
Post == /\ PrintT(<<"ACCEPTED", TLCGet(1)>>)
        /\ PrintT(<<"REJECTED", TLCGet(2)>>)

RatioOne == O!RatioOne
RestartAfterDone == l > 0 => O!RestartAfterDone
PolicyStateCounts == O!PolicyStateCounts
BootstrapOnlyThroughTruncation == O!BootstrapOnlyThroughTruncation
MaskRespected == O!MaskRespected
=============================================================================
