------------------------------ MODULE Trace_Gait ------------------------------
(* Trace validation for C20: one trace = one history of real gait phases         *)
(*  [K, m, init |-> [l, r], events |-> << [l, r, hl, hr, on_grid] >>, atoms]      *)
(* l / r: phases in ticks after each call of advance_gait_phase (or after each   *)
(* real G1 env.step, with m from the state's own gait frequency), hl / hr:       *)
(* desired_foot_height / swing_height in units of 1e-4, on_grid: the real phase  *)
(* is within 1e-3 ticks of an integer tick.  atoms: per-episode facts evaluated   *)
(* by the projection (randomisation frame and ranges, kinematic consistency).     *)
EXTENDS Integers, Sequences, FiniteSets, TLC, TLCExt, Json, IOUtils
VARIABLES K, m, left, right, steps, tid, l, rej
G == INSTANCE Gait
vars == <<K, m, left, right, steps, tid, l, rej>>
Traces == JsonDeserialize(IOEnv.TRACE_FILE)
Tr == Traces[tid].events
Abs(x) == IF x < 0 THEN -x ELSE x
\* -K/2 and +K/2 denote the same angle: compare modulo K
SamePhase(a, b) == (a - b) % K = 0
TInit == /\ TLCSet(1, {}) /\ TLCSet(2, {}) /\ tid \in 1..Len(Traces) /\ l = 0 /\ rej = <<>>
         /\ K = Traces[tid].K /\ m = Traces[tid].m /\ left = Traces[tid].init.l /\ right = Traces[tid].init.r /\ steps = 0
\* tolerance in 1e-4 of the swing height: 2, or what the event carries (the float32 phase has drifted by a logged fraction of a
\* tick along the history, and the Bezier curve has slope 3/K per tick)
HeightOK(h, p, tol) == Abs(h * K * K * K - G!HNum(p) * 10000) <= tol * K * K * K
HTol(ev) == IF "htol" \in DOMAIN ev THEN ev.htol ELSE 2
Clauses(ev) ==
  [PhaseAdvancesByTwoPiFrequencyDt |-> ev.on_grid /\ SamePhase(ev.l, G!Advance(left)) /\ SamePhase(ev.r, G!Advance(right)),
   PhasesStayWithinMinusPiPi       |-> ev.l \in (-G!Half)..G!Half /\ ev.r \in (-G!Half)..G!Half,
   PhasesHalfACycleApart           |-> (ev.r - ev.l) % K = G!Half,
   \* total verdicts: the Bezier reference is evaluated only for phases inside the cycle (outside, the range clause has already
   \* failed and HNum of an arbitrary logged integer would overflow TLC's 32-bit arithmetic); the [0, swing] bound always is
   FootHeightFollowsBezierWithinSwing |-> /\ ev.hl >= -2 /\ ev.hl <= 10002 /\ ev.hr >= -2 /\ ev.hr <= 10002
                                          /\ (ev.l \in (-G!Half)..G!Half /\ ev.r \in (-G!Half)..G!Half)
                                               => (HeightOK(ev.hl, ev.l, HTol(ev)) /\ HeightOK(ev.hr, ev.r, HTol(ev)))]
FailedAt(i) == IF i = 0 THEN {n \in DOMAIN Traces[tid].atoms : ~Traces[tid].atoms[n]}
               ELSE LET c == Clauses(Tr[i]) IN {n \in DOMAIN c : ~c[n]}
TStep == /\ l >= 0 /\ l <= Len(Tr) /\ FailedAt(l) = {}
         /\ IF l = 0 THEN UNCHANGED <<left, right, steps>>
            ELSE left' = Tr[l].l /\ right' = Tr[l].r /\ steps' = steps + 1
         /\ l' = l + 1 /\ UNCHANGED <<K, m, tid, rej>>
TReject == /\ l >= 0 /\ l <= Len(Tr) /\ FailedAt(l) # {}
           /\ rej' = <<l, FailedAt(l)>> /\ l' = -1 /\ UNCHANGED <<K, m, left, right, steps, tid>>
TSpec == TInit /\ [][TStep \/ TReject]_vars
Mark == /\ IF l = Len(Tr) + 1 THEN TLCSet(1, TLCGet(1) \cup {tid}) ELSE TRUE
        /\ IF l = -1 THEN TLCSet(2, TLCGet(2) \cup {<<tid, rej[1], rej[2]>>}) ELSE TRUE
Post == /\ PrintT(<<"ACCEPTED", TLCGet(1)>>) /\ PrintT(<<"REJECTED", TLCGet(2)>>)
=============================================================================
