---------------------------- MODULE Target_ind ----------------------------
(* Unbounded check (Apalache, inductive) of DQN's target schedule of          *)
(* Schedule.tla for EVERY update interval K >= 1 and every iteration count:   *)
(* with network versions numbered by the iteration that produced them, the    *)
(* target is the online network as of the most recent multiple of K and is    *)
(* unchanged in between (TLC explores K <= 3, <= 6 iterations).               *)
(*   apalache-mc check --init=IndInit --inv=IndInv  --length=1                *)
(*   apalache-mc check --init=IndInit --inv=UnchangedInBetween --length=1     *)
(*   apalache-mc check --init=Init0   --inv=IndInv  --length=0                *)
EXTENDS Integers

VARIABLES
  \* @type: Int;
  K,
  \* @type: Int;
  iter,
  \* @type: Int;
  onl,
  \* @type: Int;
  tgt,
  \* @type: Int;
  q

\* q is the auxiliary quotient iter \div K (kept explicitly so that the invariant stays linear for the solver)
Next ==
  /\ iter' = iter + 1
  /\ onl' = iter + 1                                   \* the training step of iteration i produces version i
  /\ tgt' = IF (iter + 1) % K = 0 THEN iter + 1 ELSE tgt   \* post-increment counter (dqn.py per_iteration)
  /\ q' = IF (iter + 1) % K = 0 THEN q + 1 ELSE q
  /\ UNCHANGED K

IndInv == K >= 1 /\ iter >= 0 /\ onl = iter /\ q >= 0 /\ q * K <= iter /\ iter < q * K + K /\ tgt = q * K
IndInit == K \in Int /\ iter \in Int /\ onl \in Int /\ tgt \in Int /\ q \in Int /\ IndInv
Init0 == K \in Int /\ K >= 1 /\ iter = 0 /\ onl = 0 /\ tgt = 0 /\ q = 0
UnchangedInBetween == ((iter + 1) % K # 0) => tgt' = tgt
=============================================================================
