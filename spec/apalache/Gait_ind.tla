---------------------------- MODULE Gait_ind ----------------------------
(* Unbounded check of the gait-phase invariants of Gait.tla with Apalache:  *)
(* IndInv is inductive for EVERY even cycle length K >= 2 and every         *)
(* increment m >= 0 (TLC checks K in {8,12,16,20}, m in 0..3K exhaustively). *)
(*   apalache-mc check --init=IndInit --inv=IndInv --length=1 Gait_ind.tla  *)
(*   apalache-mc check --init=Init0   --inv=IndInv --length=0 Gait_ind.tla  *)
(* The module restates Advance / Step of Gait.tla with type annotations     *)
(* (Gait.tla's Init takes parameters, which Apalache's --init cannot bind). *)
EXTENDS Integers

VARIABLES
  \* @type: Int;
  K,
  \* @type: Int;
  m,
  \* @type: Int;
  left,
  \* @type: Int;
  right,
  \* @type: Int;
  steps

Half == K \div 2
Advance(p) == ((p + m + Half) % K) - Half

Params == K >= 2 /\ K % 2 = 0 /\ m >= 0
InRange == left >= -Half /\ left <= Half /\ right >= -Half /\ right <= Half
HalfCycleApart == (right - left) % K = Half
IndInv == Params /\ InRange /\ HalfCycleApart /\ steps >= 0

\* any state satisfying the invariant (Apalache picks the values)
IndInit == K \in Int /\ m \in Int /\ left \in Int /\ right \in Int /\ steps \in Int /\ IndInv
\* the real initial states, for every admissible K and m
Init0 == K \in Int /\ m \in Int /\ Params /\ left = 0 /\ right = K \div 2 /\ steps = 0

Next == left' = Advance(left) /\ right' = Advance(right) /\ steps' = steps + 1 /\ UNCHANGED <<K, m>>
\* Gait!AdvancesByIncrement as an action invariant (checked with --inv=AdvancesByIncrement --length=1 from IndInit)
AdvancesByIncrement == (left' - left) % K = m % K /\ (right' - right) % K = m % K
=============================================================================
