-------------------------- MODULE TimeLimit_ind --------------------------
(* Unbounded check (Apalache, inductive) of the TimeLimit clock of MDP.tla /   *)
(* EnvAPI.tla for EVERY limit N >= 1 (TLC explores N <= 6 over real MDPs):      *)
(* the wrapper counter equals the episode clock, an episode never runs past N,  *)
(* truncation is raised at exactly the N-th step or where the inner environment *)
(* truncates, and the counter restarts whenever the step is done.               *)
(* The inner environment is abstracted to two nondeterministic flags per step.  *)
(*   apalache-mc check --init=IndInit --inv=IndInv     --length=1               *)
(*   apalache-mc check --init=IndInit --inv=TruncExact --length=1  (action inv) *)
(*   apalache-mc check --init=Init0   --inv=IndInv     --length=0               *)
EXTENDS Integers

VARIABLES
  \* @type: Int;
  N,
  \* @type: Int;
  cnt,
  \* @type: Int;
  eplen,
  \* @type: Bool;
  trunc,
  \* @type: Bool;
  term,
  \* @type: Bool;
  itrunc

\* MDP!WTruncate: cnt >= N after the increment, or the inner truncation
Step(iterm, itr) ==
  LET c1 == cnt + 1
      tr == itr \/ c1 >= N
      done == iterm \/ tr IN
  /\ trunc' = tr /\ term' = iterm /\ itrunc' = itr
  /\ cnt' = IF done THEN 0 ELSE c1             \* EnvAPI!Step: fresh initial state (counter 0) when done
  /\ eplen' = IF done THEN 0 ELSE eplen + 1
  /\ UNCHANGED N
Next == \E iterm \in BOOLEAN : \E itr \in BOOLEAN : Step(iterm, itr)

IndInv == N >= 1 /\ cnt = eplen /\ eplen >= 0 /\ eplen < N
IndInit == N \in Int /\ cnt \in Int /\ eplen \in Int /\ trunc \in BOOLEAN /\ term \in BOOLEAN /\ itrunc \in BOOLEAN /\ IndInv
Init0 == N \in Int /\ N >= 1 /\ cnt = 0 /\ eplen = 0 /\ trunc = FALSE /\ term = FALSE /\ itrunc = FALSE

\* action invariants
TruncExact == trunc' <=> (itrunc' \/ eplen + 1 = N)
RestartWhenDone == (term' \/ trunc') => (cnt' = 0 /\ eplen' = 0)
=============================================================================
