----------------------------- MODULE Ring_ind -----------------------------
(* Unbounded check (Apalache, inductive) of the replay ring of RingOps.tla /   *)
(* ReplayRing.tla: for every capacity C in 1..8 and EVERY number of insertions *)
(* (TLC explores at most 2C+2 insertions), slot i holds the most recent        *)
(* insertion whose index is congruent to i modulo C, i.e. the ring holds       *)
(* exactly the most recent min(n, C) insertions; unwritten slots stay          *)
(* unwritten.  Insertions are identified by their index (the stamp).           *)
(*   apalache-mc check --cinit=CInit --init=IndInit --inv=IndInv --length=1    *)
(*   apalache-mc check --cinit=CInit --init=Init0   --inv=IndInv --length=0    *)
(*   apalache-mc check --cinit=CInit --init=IndInit --inv=Recent --length=0    *)
EXTENDS Integers

CONSTANT
  \* @type: Int;
  C

VARIABLES
  \* @type: Int;
  pos,
  \* @type: Int -> Int;
  ring

CInit == C \in 1..8
Dom == 0..7                  \* Apalache needs a constant range: slots C..7 exist in the model and must never be touched
Slots == {i \in Dom : i < C}
Unwritten == -1

\* RingOps!Add: the row is written at pos % C, the position counter counts insertions
Next == /\ ring' = [ring EXCEPT ![pos % C] = pos]
        /\ pos' = pos + 1

IndInv == /\ pos >= 0
          /\ \A i \in Dom :
               IF i >= C \/ i >= pos THEN ring[i] = Unwritten
               ELSE ring[i] % C = i /\ ring[i] < pos /\ ring[i] >= pos - C /\ ring[i] >= 0
IndInit == pos \in Int /\ ring \in [Dom -> Int] /\ IndInv
Init0 == pos = 0 /\ ring = [i \in Dom |-> Unwritten]

\* declarative reading: the stored stamps are exactly the most recent min(pos, C) insertions
Recent == \A k \in Int : (k >= 0 /\ k < pos /\ k >= pos - C) => ring[k % C] = k
=============================================================================
