------------------------------ MODULE Checkpoint ------------------------------
(***************************************************************************)
(* Saving and loading policies (C18): Serializable.serialize /             *)
(* deserialize (src/lerax/utils.py) against a tiny file-system model.      *)
(*                                                                         *)
(*   Pols    policies of the pool: [sig |-> architecture signature,        *)
(*                                  par |-> parameter digest]              *)
(*   fs      file system: path (with suffix) -> blob [sig, par] (or Absent)*)
(*   dirs    directories that exist                                        *)
(* A spelling is [dir, stem, suffix \in BOOLEAN]: the path the user passes,*)
(* with or without ".eqx".  Save resolves to dir/stem.eqx, creating        *)
(* missing directories; Load resolves the same way and returns the saved   *)
(* parameters iff the skeleton's signature equals the file's, else fails   *)
(* loudly - never a policy with other parameters.                          *)
(***************************************************************************)
EXTENDS Integers, Sequences, FiniteSets

CONSTANTS Dirs, Stems, NPol       \* directory names, file stems, pool size
VARIABLES fs, dirs, last, hist
vars == <<fs, dirs, last, hist>>

Absent == [sig |-> 0, par |-> 0]
Paths == Dirs \X Stems
\* pool: policy i has signature Sig(i) and parameters i (two policies share a signature, with different parameters)
Sig(i) == (i + 1) \div 2
Blob(i) == [sig |-> Sig(i), par |-> i]

Init == /\ fs = [p \in Paths |-> Absent]
        /\ dirs = {}
        /\ last = [op |-> "none", ok |-> TRUE, par |-> 0]
        /\ hist = <<>>

Save(d, s, withSuffix, i) ==
  /\ fs' = [fs EXCEPT ![<<d, s>>] = Blob(i)]
  /\ dirs' = dirs \cup {d}                      \* parents are created when missing
  /\ last' = [op |-> "save", ok |-> TRUE, par |-> i]
  /\ hist' = Append(hist, [op |-> "save", d |-> d, s |-> s, suf |-> withSuffix, pol |-> i])

Load(d, s, withSuffix, skel) ==
  /\ LET b == fs[<<d, s>>] IN
     last' = IF b # Absent /\ b.sig = Sig(skel) THEN [op |-> "load", ok |-> TRUE, par |-> b.par]
             ELSE [op |-> "load", ok |-> FALSE, par |-> 0]
  /\ hist' = Append(hist, [op |-> "load", d |-> d, s |-> s, suf |-> withSuffix, pol |-> skel])
  /\ UNCHANGED <<fs, dirs>>

Next == \E d \in Dirs, s \in Stems, suf \in BOOLEAN, i \in 1..NPol : Save(d, s, suf, i) \/ Load(d, s, suf, i)
Spec == Init /\ [][Next]_vars

(* ------------------------------ declarative properties ------------------------------ *)
\* most recent save to path p in the history (0 if none)
RECURSIVE LastSaved(_, _, _)
LastSaved(h, p, k) == IF k = 0 THEN 0
                      ELSE IF h[k].op = "save" /\ <<h[k].d, h[k].s>> = p THEN h[k].pol ELSE LastSaved(h, p, k - 1)
\* a load returns exactly what was last saved under that path - whatever was saved or loaded elsewhere in between, and
\* whichever spelling was used - provided the shapes match; otherwise it fails
RoundTrip ==
  (Len(hist) > 0 /\ hist[Len(hist)].op = "load") =>
     LET e == hist[Len(hist)] w == LastSaved(hist, <<e.d, e.s>>, Len(hist) - 1) IN
     IF w # 0 /\ Sig(w) = Sig(e.pol) THEN last.ok /\ last.par = w
     ELSE ~last.ok
NoPartialLoad == last.op = "load" /\ last.ok => \E i \in 1..NPol : last.par = i
ParentsCreated == \A p \in Paths : fs[p] # Absent => p[1] \in dirs
=============================================================================
