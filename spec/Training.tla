------------------------------ MODULE Training ------------------------------
(***************************************************************************)
(* Composition: the whole of learn() as a state machine, with the callback *)
(* protocol as explicit actions (growth beyond the listed properties).     *)
(*                                                                         *)
(*   learn = reset . on_training_start . iteration^n . on_training_end     *)
(*   reset (on-policy)  = step_reset per environment . callback.reset      *)
(*   reset (off-policy) = step_reset per environment . (step . on_step)^ls *)
(*                        per environment (warm-up) . callback.reset       *)
(*   iteration = (step . on_step)^S per environment . train . counter + 1  *)
(*               . on_iteration . per_iteration                            *)
(* Events are what a flight-recorder callback sees, in program order for   *)
(* one environment (vmapped steps of several environments are unordered    *)
(* among each other; the recorder is run with num_envs = 1).               *)
(*   cfg = [offpolicy, ls (learning_starts), S (num_steps), total]         *)
(***************************************************************************)
EXTENDS Integers, Sequences

VARIABLES cfg, pc, iter, insteps, nsteps, log
vars == <<cfg, pc, iter, insteps, nsteps, log>>

NumIter == cfg.total \div cfg.S
Emit(e) == log' = Append(log, e)

Init(c) == cfg = c /\ pc = "start" /\ iter = 0 /\ insteps = 0 /\ nsteps = 0 /\ log = <<>>

StepReset == pc = "start" /\ pc' = (IF cfg.offpolicy /\ cfg.ls > 0 THEN "warm" ELSE "cbreset") /\ Emit([e |-> "step_reset", k |-> 0])
             /\ UNCHANGED <<cfg, iter, insteps, nsteps>>
WarmStep == /\ pc = "warm" /\ insteps < cfg.ls
            /\ insteps' = insteps + 1 /\ nsteps' = nsteps + 1 /\ Emit([e |-> "on_step", k |-> nsteps + 1])
            /\ pc' = (IF insteps + 1 = cfg.ls THEN "cbreset" ELSE "warm") /\ UNCHANGED <<cfg, iter>>
CbReset == pc = "cbreset" /\ pc' = "tstart" /\ insteps' = 0 /\ Emit([e |-> "reset", k |-> 0]) /\ UNCHANGED <<cfg, iter, nsteps>>
TrainingStart == pc = "tstart" /\ pc' = (IF NumIter = 0 THEN "tend" ELSE "collect") /\ Emit([e |-> "on_training_start", k |-> iter])
                 /\ UNCHANGED <<cfg, iter, insteps, nsteps>>
CollectStep == /\ pc = "collect" /\ insteps < cfg.S
               /\ insteps' = insteps + 1 /\ nsteps' = nsteps + 1 /\ Emit([e |-> "on_step", k |-> nsteps + 1])
               /\ pc' = (IF insteps + 1 = cfg.S THEN "train" ELSE "collect") /\ UNCHANGED <<cfg, iter>>
Train == pc = "train" /\ pc' = "oniter" /\ iter' = iter + 1 /\ Emit([e |-> "train", k |-> iter]) /\ UNCHANGED <<cfg, insteps, nsteps>>
OnIteration == /\ pc = "oniter" /\ Emit([e |-> "on_iteration", k |-> iter])      \* sees the already incremented counter
               /\ insteps' = 0 /\ pc' = (IF iter = NumIter THEN "tend" ELSE "collect") /\ UNCHANGED <<cfg, iter, nsteps>>
TrainingEnd == pc = "tend" /\ pc' = "done" /\ Emit([e |-> "on_training_end", k |-> iter]) /\ UNCHANGED <<cfg, iter, insteps, nsteps>>

Next == StepReset \/ WarmStep \/ CbReset \/ TrainingStart \/ CollectStep \/ Train \/ OnIteration \/ TrainingEnd
Spec == Init([offpolicy |-> FALSE, ls |-> 0, S |-> 1, total |-> 0]) /\ [][Next]_vars

(* ------------------------------ declarative protocol properties ------------------------------ *)
Count(e) == Len(SelectSeq(log, LAMBDA x : x.e = e))
Done == pc = "done"
StartAndEndExactlyOnce == Done => Count("on_training_start") = 1 /\ Count("on_training_end") = 1 /\ Count("reset") = 1 /\ Count("step_reset") = 1
OneOnStepPerEnvironmentStep == Done => Count("on_step") = (IF cfg.offpolicy THEN cfg.ls ELSE 0) + NumIter * cfg.S
OneOnIterationPerIteration == Done => Count("on_iteration") = NumIter /\ Count("train") = NumIter
\* on_iteration number i carries iteration_count = i and comes after exactly ls + i*S on_step calls
IterationCallbacksInOrder ==
  \A j \in 1..Len(log) : log[j].e = "on_iteration" =>
     Len(SelectSeq(SubSeq(log, 1, j), LAMBDA x : x.e = "on_step")) = (IF cfg.offpolicy THEN cfg.ls ELSE 0) + log[j].k * cfg.S
StartBeforeStepsOfIterations ==
  \A j \in 1..Len(log) : log[j].e = "on_training_start" => \A i \in 1..(j - 1) : log[i].e \in {"step_reset", "on_step", "reset"}
=============================================================================
