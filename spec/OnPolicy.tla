----------------------------- MODULE OnPolicy -----------------------------
(***************************************************************************)
(* The on-policy collector of lerax:                                       *)
(*   AbstractActorCriticOnPolicyAlgorithm.step / collect_rollout /         *)
(*   post_collect  (src/lerax/algorithm/on_policy.py)                      *)
(* over a wrapped finite MDP (MDP.tla) and a tabular actor-critic policy.  *)
(*                                                                         *)
(* One action per collector step (one rollout row), one for post_collect.  *)
(* This is the *property's* collector (C04): the stored action is the      *)
(* action the policy chose (whose log-probability is stored), the          *)
(* environment is driven and rewarded with the clipped action, the         *)
(* bootstrap gamma*V(successor observation) is added iff the step was      *)
(* truncated and not terminated, and both environment and policy state     *)
(* restart after a done step.                                              *)
(*                                                                         *)
(* Policy tables in cfg (indexed by PIdx(observation) = observation % P):  *)
(*   cfg.V[p]      integer value          cfg.Raw[p][k]  candidate actions *)
(*   cfg.LogP[p][k] log-prob of candidate k in quarter units               *)
(*   cfg.g2, cfg.l2  gamma = g2/2, lambda = l2/2     cfg.H  rollout length *)
(* Rewards in rows are in half units (2*r + g2*V).                         *)
(***************************************************************************)
EXTENDS Integers, Sequences, FiniteSets

VARIABLES cfg,    \* MDP + policy + hyper-parameters, fixed at Init
          es,     \* carried wrapped environment state
          ps,     \* carried policy state: calls since the last policy reset
          rows,   \* the rollout buffer being filled
          adv,    \* advantages / returns after post_collect (<<>> before)
          ret,
          seen    \* history: per step, what really happened in the MDP:
                  \* [idx (base-level action index driven), term, trunc, r2 (2*env reward), sobs (successor obs)]

M == INSTANCE MDP
G == INSTANCE GAE

vars == <<cfg, es, ps, rows, adv, ret, seen>>

NoLogP == -100                        \* log-prob (quarter units) the table policy reports for a non-candidate action
PIdx(o) == o % cfg.P
Cands(p) == {cfg.Raw[p + 1][k] : k \in 1..cfg.K}
FirstAllowed(m) == CHOOSE a \in 0..(Len(m) - 1) : m[a + 1] /\ \A b \in 0..(a - 1) : ~m[b + 1]
\* what the tabular policy may return under mask m (<<>> = no mask)
Choices(p, m) ==
  IF m = <<>> THEN Cands(p)
  ELSE LET ok == {a \in Cands(p) : a >= 0 /\ a < Len(m) /\ m[a + 1]} IN
       IF ok # {} THEN ok ELSE {FirstAllowed(m)}
LogPOf(p, a) ==
  IF \E k \in 1..cfg.K : cfg.Raw[p + 1][k] = a
  THEN cfg.LogP[p + 1][CHOOSE k \in 1..cfg.K : cfg.Raw[p + 1][k] = a]
  ELSE NoLogP

\* clip into the (outermost) action space when it is a box: what the collector does before env.transition
OuterA == M!ASpace(M!Depth)
ClipToSpace(a) == IF OuterA.kind = "box" THEN M!ClipTo(a, OuterA.lo, OuterA.hi) ELSE a

\* everything one collector step derives from (carried state, chosen action)
StepFacts(e, raw) ==
  LET c  == ClipToSpace(raw)
      so == M!StepOut(e, c)
      dn == so.term \/ so.trunc
  IN [clipped |-> c, so |-> so, done |-> dn,
      rew |-> 2 * so.rew + (IF so.trunc /\ ~so.term THEN cfg.g2 * cfg.V[PIdx(M!WObs(so.nx)) + 1] ELSE 0)]

Init(c, e0, p0) == cfg = c /\ es = e0 /\ ps = p0 /\ rows = <<>> /\ adv = <<>> /\ ret = <<>> /\ seen = <<>>

CollectStep(raw, s0) ==
  LET o == M!WObs(es)
      m == M!WMask(es)
      p == PIdx(o)
      f == StepFacts(es, raw)
  IN /\ Len(rows) < cfg.H
     /\ raw \in Choices(p, m)
     /\ rows' = Append(rows, [obs |-> o, act |-> raw, rew |-> f.rew, done |-> f.done,
                              logp |-> LogPOf(p, raw), val |-> cfg.V[p + 1], pstate |-> ps, mask |-> m])
     /\ es' = IF f.done THEN M!WInitial(s0) ELSE f.so.nx
     /\ ps' = IF f.done THEN 0 ELSE ps + 1
     /\ seen' = Append(seen, [idx |-> M!WIdx(f.clipped), term |-> f.so.term, trunc |-> f.so.trunc,
                              r2 |-> 2 * f.so.rew, sobs |-> M!WObs(f.so.nx)])
     /\ UNCHANGED <<cfg, adv, ret>>

GaeCase ==
  [T |-> cfg.H, r |-> [t \in 1..cfg.H |-> rows[t].rew], v |-> [t \in 1..cfg.H |-> rows[t].val],
   d |-> [t \in 1..cfg.H |-> rows[t].done], last |-> cfg.V[PIdx(M!WObs(es)) + 1],
   gn |-> cfg.g2, ln |-> cfg.l2, den |-> 2]

PostCollect ==
  /\ Len(rows) = cfg.H /\ adv = <<>>
  /\ adv' = [t \in 1..cfg.H |-> G!ScanAdv(GaeCase, t)]
  /\ ret' = [t \in 1..cfg.H |-> G!ScanRet(GaeCase, t)]
  /\ UNCHANGED <<cfg, es, ps, rows, seen>>

(* ------------------------------ declarative properties (C04) ------------------------------ *)
\* re-evaluating the stored sample under the unchanged policy reproduces value and log-prob: first PPO ratio is 1
RatioOne == \A t \in 1..Len(rows) :
               /\ LogPOf(PIdx(rows[t].obs), rows[t].act) = rows[t].logp
               /\ cfg.V[PIdx(rows[t].obs) + 1] = rows[t].val

\* the environment only ever saw in-bounds actions when the collector clips (box action space)
EnvSawClipped == OuterA.kind = "box" /\ OuterA.lo > -M!INF /\ OuterA.hi < M!INF /\ M!Depth = 0 =>
                    \A i \in 1..Len(seen) : seen[i].idx # cfg.nA + 1

\* a true termination never bootstraps; a step ended only by truncation gets gamma*V(successor observation)
BootstrapOnlyThroughTruncation ==
  \A t \in 1..Len(rows) :
     /\ seen[t].term => rows[t].rew = seen[t].r2
     /\ (~seen[t].term /\ ~seen[t].trunc) => rows[t].rew = seen[t].r2
     /\ (~seen[t].term /\ seen[t].trunc) => rows[t].rew = seen[t].r2 + cfg.g2 * cfg.V[PIdx(seen[t].sobs) + 1]
     /\ rows[t].done = (seen[t].term \/ seen[t].trunc)

\* after a done row both the environment and the policy state restart
RestartAfterDone ==
  \A t \in 1..Len(rows) :
     rows[t].done =>
        IF t < Len(rows) THEN rows[t + 1].pstate = 0
        ELSE ps = 0 /\ M!IsInitialState(es)

\* policy state counts calls since the last restart
PolicyStateCounts == \A t \in 1..(Len(rows) - 1) : ~rows[t].done => rows[t + 1].pstate = rows[t].pstate + 1

\* recorded masks are the ones offered, and the stored action respects them
MaskRespected == \A t \in 1..Len(rows) :
                    rows[t].mask # <<>> => rows[t].mask[rows[t].act + 1]
=============================================================================
