------------------------------- MODULE RefMDP -------------------------------
(***************************************************************************)
(* Qualitative reference semantics of the classic-control environments     *)
(* (C17), written from the Gymnasium sources/documentation: which region   *)
(* of the state space is terminal, what reward a transition into each      *)
(* region earns (including the goal / terminal step), and the left-wall    *)
(* rule of the mountain cars.  A probe is one transition; the successor is *)
(* abstracted to *regions* by the projection using thresholds read from    *)
(* the installed Gymnasium environment objects:                            *)
(*   CartPole     x_out, th_out      |x'| > x_threshold, |theta'| > limit  *)
(*   MountainCar  goal, fast, at_wall, v_neg     (also the continuous one) *)
(*   Acrobot      high               -cos t1 - cos(t1 + t2) > 1            *)
(* Rewards are integers in units of 1e-3; a4 = action in quarter units.    *)
(***************************************************************************)
EXTENDS Integers

Min2(a, b) == IF a < b THEN a ELSE b
Max2(a, b) == IF a > b THEN a ELSE b

Terminal(env, p) ==
  CASE env = "CartPole" -> p.x_out \/ p.th_out
    [] env \in {"MountainCar", "ContinuousMountainCar"} -> p.goal /\ p.fast
    [] env = "Acrobot" -> p.high
    [] OTHER -> FALSE

\* reward of the transition into the probed successor
Reward(env, p) ==
  CASE env = "CartPole" -> 1000                       \* +1 on every step, including the terminating one
    [] env = "MountainCar" -> -1000                   \* -1 on every step
    [] env = "ContinuousMountainCar" ->               \* +100 on the goal step, minus 0.1 * clip(a, -1, 1)^2
         (IF Terminal(env, p) THEN 100000 ELSE 0) - (Max2(-4, Min2(p.a4, 4)) * Max2(-4, Min2(p.a4, 4)) * 100) \div 16
    [] env = "Acrobot" -> IF p.high THEN 0 ELSE -1000  \* -1 per step, 0 on the terminating step
    [] OTHER -> 0

\* State limits of the mountain cars (Gymnasium: v := clip(v, -max_speed, max_speed); x := clip(x, min, max);
\* if x = min and v < 0 then v := 0 - and nothing else).  The input of the limit rule is abstracted to classes:
\*   xin \in {"below", "inside", "above"}           position relative to [min_position, max_position]
\*   vin \in {"neg_big", "neg", "zero", "pos", "pos_big"}   velocity relative to 0 and to +-max_speed
\* the output to  xout \in {"at_min", "inside", "at_max"},  vout \in {"neg_max", "neg", "zero", "pos", "pos_max"} .
LimitX(xin) == CASE xin = "below" -> "at_min" [] xin = "above" -> "at_max" [] OTHER -> "inside"
LimitV(xin, vin) ==
  LET v == CASE vin = "neg_big" -> "neg_max" [] vin = "pos_big" -> "pos_max" [] OTHER -> vin IN
  IF LimitX(xin) = "at_min" /\ v \in {"neg_max", "neg"} THEN "zero" ELSE v

\* inelastic left wall: a car at the minimum position does not keep a negative velocity
WallRule(env, p) == env \in {"MountainCar", "ContinuousMountainCar"} => (p.at_wall => ~p.v_neg)
=============================================================================
