------------------------------- MODULE Purity -------------------------------
(***************************************************************************)
(* Training is a function of (environment, initial policy, hyper-          *)
(* parameters, key) and is unaffected by observers (C11).                  *)
(*                                                                         *)
(* Model: two copies of learn() = reset . (collect . train . callbacks)^n  *)
(* run in lock-step on the same inputs and the same key sequence, but with *)
(* *arbitrary* observer states (the observers of the two copies are        *)
(* unrelated: different callback sets, different accumulated statistics).  *)
(* Train abstracts one iteration's effect on the parameters as a function  *)
(* of (parameters, key) only - which is exactly the claim.  The invariant  *)
(* Agree says the two copies never diverge; a version of Train that read   *)
(* the observer state would violate it (spec/mutants/Purity_leak.tla).     *)
(***************************************************************************)
EXTENDS Integers, Sequences

CONSTANTS NIter, Keys, ObsVals
VARIABLES key, it, p1, p2, o1, o2
vars == <<key, it, p1, p2, o1, o2>>

Mix(a, b) == (a * 31 + b * 17 + 7) % 101
KeyOf(k, i) == Mix(k, i)                               \* the i-th iteration key derived from the run key
Train(p, k, o) == Mix(p, k)                            \* parameters after one iteration: the observer state is not an input

Init == key \in Keys /\ it = 0 /\ p1 = 1 /\ p2 = 1 /\ o1 \in ObsVals /\ o2 \in ObsVals
Iterate == /\ it < NIter
           /\ p1' = Train(p1, KeyOf(key, it), o1) /\ p2' = Train(p2, KeyOf(key, it), o2)
           /\ o1' \in ObsVals /\ o2' \in ObsVals      \* observers do whatever they like with what they are shown
           /\ it' = it + 1 /\ UNCHANGED key
Spec == Init /\ [][Iterate]_vars
Agree == p1 = p2
=============================================================================
