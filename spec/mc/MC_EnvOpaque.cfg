SPECIFICATION Spec
CONSTRAINT Bound
INVARIANT CountersAreClock
INVARIANT NeverPastLimit
CHECK_DEADLOCK FALSE
