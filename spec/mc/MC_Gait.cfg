SPECIFICATION Spec
INVARIANT InRange
INVARIANT HalfCycleApart
INVARIANT HeightWithinSwing
INVARIANT HeightVanishesAtMinusPiAndPeaksAtZero
INVARIANT HeightMonotoneOnEachHalf
PROPERTY AdvancesByIncrement
CHECK_DEADLOCK FALSE
