SPECIFICATION Spec
CONSTANTS
  Dirs = {"a"}
  Stems = {"p", "m.v1", "m.v2"}
  NPol = 4
  MaxLevel = 4
CONSTRAINT Bound
INVARIANT RoundTrip
INVARIANT NoPartialLoad
INVARIANT ParentsCreated
CHECK_DEADLOCK FALSE
