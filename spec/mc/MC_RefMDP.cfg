SPECIFICATION Spec
INVARIANT GoalStepIsRewarded
INVARIANT AcrobotTerminalStepIsFree
INVARIANT CartPoleAlwaysPays
INVARIANT ControlCostBounded
CHECK_DEADLOCK FALSE
