------------------------------- MODULE MC_Eval -------------------------------
(* rollout_scan's done-latch shape = declarative "stop at first done or cap"   *)
EXTENDS Integers, Sequences, FiniteSets, TLC, Json, IOUtils
VARIABLES cfg, cap
E == INSTANCE Eval
M == INSTANCE MDP
Cfgs == JsonDeserialize(IOEnv.CFG_FILE)
Init == \E i \in 1..Len(Cfgs) : cfg = Cfgs[i] /\ cap \in 0..8
Next == UNCHANGED <<cfg, cap>>
Spec == Init /\ [][Next]_<<cfg, cap>>
ScanIsDeclarative == \A s0 \in M!InitSet : E!ScanReturn(M!WInitial(s0), FALSE, cap) = E!ReturnFrom(s0, cap)
=============================================================================
