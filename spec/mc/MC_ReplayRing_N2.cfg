SPECIFICATION Spec
CONSTANTS
  MaxCap = 2
  MaxAdds = 4
  MaxN = 2
INVARIANT Recent
INVARIANT RecentBag
INVARIANT ValidAreStored
INVARIANT SamplesAreStored
INVARIANT StoredCount
CHECK_DEADLOCK FALSE
