SPECIFICATION Spec
CONSTANT MaxN = 5
INVARIANT AtMostOncePerEpoch
INVARIANT UsedCount
INVARIANT DroppedFewerThanB
INVARIANT FlattenBijective
INVARIANT VisitsBounded
INVARIANT VisitTotal
CHECK_DEADLOCK FALSE
