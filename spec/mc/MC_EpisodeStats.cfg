SPECIFICATION Spec
CONSTANTS
  MaxLen = 6
  NEnv = 1
INVARIANT Faithful
PROPERTY UnchangedOtherwise
CHECK_DEADLOCK FALSE
