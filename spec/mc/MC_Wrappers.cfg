SPECIFICATION Spec
CONSTRAINT Bound
INVARIANT OnlyDeclared
INVARIANT RescaleExact
PROPERTY DeclaredChangeOnly
PROPERTY TruncExact
CHECK_DEADLOCK FALSE
