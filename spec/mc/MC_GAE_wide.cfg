SPECIFICATION Spec
CONSTANTS
  TT = 3
  Rs <- RsA
  Vs = {0, 1}
  Gs <- GsA
  Ls = {0, 2, 4}
  Den = 4
INVARIANT Exact
INVARIANT MatchesDefinition
INVARIANT Lambda1IsMonteCarlo
INVARIANT Lambda0IsTD
INVARIANT ReturnIsAdvPlusValue
INVARIANT CutAtDone
CHECK_DEADLOCK FALSE
