SPECIFICATION Spec
CONSTRAINT BoundEmit
INVARIANT ObsIsOfState
INVARIANT FreshIffDone
INVARIANT CountersAreClock
INVARIANT NeverPastLimit
INVARIANT ExactStack
PROPERTY TruncExact
PROPERTY SignalsOfTransitionTaken
PROPERTY SuccessorOtherwise
CHECK_DEADLOCK FALSE
