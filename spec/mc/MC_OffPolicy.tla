---------------------------- MODULE MC_OffPolicy ----------------------------
EXTENDS Integers, Sequences, FiniteSets, TLC, Json, IOUtils
VARIABLES cfg, es, ps, ring, hist, phase, iters, inphase
O == INSTANCE OffPolicy
M == INSTANCE MDP
vars == <<cfg, es, ps, ring, hist, phase, iters, inphase>>
Cfgs == JsonDeserialize(IOEnv.CFG_FILE)
MaxIters == 2
Init == \E i \in 1..Len(Cfgs) : \E s0 \in {Cfgs[i].Init[j] : j \in 1..Len(Cfgs[i].Init)} : O!Init(Cfgs[i], s0)
AllRaw == UNION {O!Cands(p) : p \in 0..(cfg.P - 1)}
DoWarm == \E raw \in AllRaw, s0 \in M!InitSet : O!WarmStep(raw, s0)
DoRun == \E raw \in AllRaw, s0 \in M!InitSet : iters < MaxIters /\ O!RunStep(raw, s0)
DoEndWarm == iters = 0 /\ O!EndWarm
DoEndIter == iters >= 0 /\ O!EndIter
Next == DoWarm \/ DoEndWarm \/ DoRun \/ DoEndIter
Spec == Init /\ [][Next]_vars
StoredIsWhatHappened == O!StoredIsWhatHappened
TimeoutIffTruncatedOnly == O!TimeoutIffTruncatedOnly
DoneIsTermOrTrunc == O!DoneIsTermOrTrunc
WarmUpCount == O!WarmUpCount
EnvSawClipped == O!EnvSawClipped
RestartAfterDone == O!RestartAfterDone
=============================================================================
