----------------------------- MODULE MC_Wrappers -----------------------------
EXTENDS Integers, Sequences, FiniteSets, TLC, Json, IOUtils
VARIABLES cfg, st, out, eplen
E == INSTANCE EnvAPI
Wr == INSTANCE Wrappers
vars == <<cfg, st, out, eplen>>
Cfgs == JsonDeserialize(IOEnv.CFG_FILE)
Init == \E i \in 1..Len(Cfgs) : E!Init(Cfgs[i])
Acts == {cfg.acts[i] : i \in 1..Len(cfg.acts)}
DoStep == \E a \in Acts : E!Step(a)
Next == E!Reset \/ DoStep
Spec == Init /\ [][Next]_vars
Bound == TLCGet("level") <= 8
DeclaredChangeOnly == [][\A a \in Acts : Wr!DeclaredChangeOnly(a)]_vars
OnlyDeclared == Wr!OnlyDeclared
RescaleExact == Wr!RescaleExact
TruncExact == [][\A a \in Acts : E!TruncExactAt(a)]_vars
=============================================================================
