------------------------------- MODULE MC_Gait -------------------------------
EXTENDS Integers, TLC
VARIABLES K, m, left, right, steps
G == INSTANCE Gait
Init == \E k \in {8, 12, 16, 20} : \E inc \in 0..(3 * k) : G!Init(k, inc)
Next == steps < 3 * K /\ G!Step
Spec == Init /\ [][Next]_<<K, m, left, right, steps>>
InRange == G!InRange
HalfCycleApart == G!HalfCycleApart
AdvancesByIncrement == G!AdvancesByIncrement
HeightWithinSwing == G!HeightWithinSwing
HeightVanishesAtMinusPiAndPeaksAtZero == G!HeightVanishesAtMinusPiAndPeaksAtZero
HeightMonotoneOnEachHalf == G!HeightMonotoneOnEachHalf
=============================================================================
