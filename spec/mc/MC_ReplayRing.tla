--------------------------- MODULE MC_ReplayRing ---------------------------
(* All capacities 1..MaxCap, N in 1..2 rings with independent fill levels, all  *)
(* insertion histories over 3 row values up to MaxAdds insertions per ring.     *)
EXTENDS Integers, Sequences, FiniteSets, TLC

CONSTANTS MaxCap, MaxAdds, MaxN
VARIABLES cfg, rings, hist
R == INSTANCE ReplayRing
vars == <<cfg, rings, hist>>

Rows == {1, 2, 3}
Init == \E cap \in 1..MaxCap, n \in 1..MaxN : R!Init([cap |-> cap, N |-> n], 0)
DoAdd == \E e \in R!Envs, row \in Rows : Len(hist[e]) < MaxAdds /\ R!Add(e, row)
Next == DoAdd
Spec == Init /\ [][Next]_vars

Recent == R!Recent
RecentBag == R!RecentBag
ValidAreStored == R!ValidAreStored
\* every legal sample of every size B <= stored returns only stored rows of the right ring, never an unwritten slot
SamplesAreStored ==
  \A f \in R!FlatValid : R!RowAt(f) # 0
StoredCount == R!TotalStored = LET S[e \in 0..cfg.N] == IF e = 0 THEN 0 ELSE S[e - 1] + R!Stored(e) IN S[cfg.N]
=============================================================================
