SPECIFICATION Spec
INVARIANT ScanIsDeclarative
CHECK_DEADLOCK FALSE
