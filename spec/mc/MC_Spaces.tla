------------------------------ MODULE MC_Spaces ------------------------------
(* Laws of the term model itself on the case universe written by the harness   *)
(* (CFG_FILE = [spaces |-> <<space>>, probes |-> <<[s |-> index, v |-> value]>>]): *)
(* equality is an equivalence and equal spaces have equal members and flat      *)
(* sizes; members flatten to FlatSize numbers and flattening is injective on    *)
(* the members of one space.                                                    *)
EXTENDS Integers, Sequences, FiniteSets, TLC, Json, IOUtils
VARIABLE i
S == INSTANCE Spaces
U == JsonDeserialize(IOEnv.CFG_FILE)
NS == Len(U.spaces)
Init == i \in 1..NS
Next == UNCHANGED i
Spec == Init /\ [][Next]_i
Sp == U.spaces[i]
Members == {j \in 1..Len(U.probes) : U.probes[j].s = i /\ S!Contains(Sp, U.probes[j].v)}
EqIsEquivalence == /\ S!Eq(Sp, Sp)
                   /\ \A j \in 1..NS : S!Eq(Sp, U.spaces[j]) = S!Eq(U.spaces[j], Sp)
EqualSpacesEqualMembers ==
  \A j \in 1..NS : S!Eq(Sp, U.spaces[j]) =>
     /\ S!FlatSize(Sp) = S!FlatSize(U.spaces[j])
     /\ \A p \in 1..Len(U.probes) : U.probes[p].s = i => S!Contains(Sp, U.probes[p].v) = S!Contains(U.spaces[j], U.probes[p].v)
MembersFlattenToFlatSize == \A p \in Members : Len(S!Flatten(U.probes[p].v)) = S!FlatSize(Sp)
FlattenInSpaceOrderAgrees == \A p \in Members : S!Shaped(Sp, U.probes[p].v) /\ S!FlattenIn(Sp, U.probes[p].v) = S!Flatten(U.probes[p].v)
FlattenInjectiveOnMembers == \A p, q \in Members : S!Flatten(U.probes[p].v) = S!Flatten(U.probes[q].v) => U.probes[p].v = U.probes[q].v
SomeMemberSomeNonMember == Members # {} /\ \E p \in 1..Len(U.probes) : U.probes[p].s = i /\ ~S!Contains(Sp, U.probes[p].v)
=============================================================================
