SPECIFICATION Spec
CONSTANTS
  MaxLen = 3
  NEnv = 2
INVARIANT Faithful
PROPERTY UnchangedOtherwise
CHECK_DEADLOCK FALSE
