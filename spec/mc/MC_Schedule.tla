----------------------------- MODULE MC_Schedule -----------------------------
EXTENDS Integers, Sequences, FiniteSets, TLC
VARIABLES cfg, iter, steps, onl, tgt, actor, alpha, theta, thetaT, snap, fresh
Sc == INSTANCE Schedule
vars == <<cfg, iter, steps, onl, tgt, actor, alpha, theta, thetaT, snap, fresh>>
CONSTANT MaxTotal
Init == \E alg \in {"DQN", "SAC"}, total \in 0..MaxTotal, E \in 1..2, S \in 1..2, K \in 1..4, pf \in 1..3,
           auto \in BOOLEAN, tn \in {1, 2, 4}, ls \in {0, 3} :
           /\ (alg = "DQN" => pf = 1 /\ ~auto /\ tn = 4)
           /\ (alg = "SAC" => K = 1)
           /\ Sc!Init([alg |-> alg, total |-> total, E |-> E, S |-> S, K |-> K, pf |-> pf, auto |-> auto, tn |-> tn, ls |-> ls])
\* critic weights after an update: multiples of 4^10 keep ten successive Polyak steps remainder-free
DoIterate == \E w \in {0, 1048576, -2097152} : Sc!Iterate(w)
Next == DoIterate
Spec == Init /\ [][Next]_vars
IterCountBounded == Sc!IterCountBounded
StepsConsumed == Sc!StepsConsumed
TargetIsLastMultiple == Sc!TargetIsLastMultiple
AlphaOnlyIfAutotune == Sc!AlphaOnlyIfAutotune
UnchangedInBetween == Sc!UnchangedInBetween
ActorOnlyOnSchedule == Sc!ActorOnlyOnSchedule
PolyakOncePerIteration == Sc!PolyakOncePerIteration
\* learn() stops after exactly NumIterations iterations: no further step is enabled then, and one is enabled before
ExactlyNumIterations == (ENABLED DoIterate) <=> (iter < Sc!NumIterations)
=============================================================================
