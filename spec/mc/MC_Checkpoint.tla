---------------------------- MODULE MC_Checkpoint ----------------------------
EXTENDS Checkpoint, TLC
CONSTANT MaxLevel
Bound == TLCGet("level") <= MaxLevel
=============================================================================
