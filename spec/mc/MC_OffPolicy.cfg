SPECIFICATION Spec
INVARIANT StoredIsWhatHappened
INVARIANT TimeoutIffTruncatedOnly
INVARIANT DoneIsTermOrTrunc
INVARIANT WarmUpCount
INVARIANT EnvSawClipped
INVARIANT RestartAfterDone
CHECK_DEADLOCK FALSE
