------------------------------ MODULE MC_RefMDP ------------------------------
(* sanity of the reference model itself on the full region universe *)
EXTENDS Integers, TLC
VARIABLES env, p
R == INSTANCE RefMDP
Init == /\ env \in {"CartPole", "MountainCar", "ContinuousMountainCar", "Acrobot"}
        /\ p \in [x_out : BOOLEAN, th_out : BOOLEAN, goal : BOOLEAN, fast : BOOLEAN, at_wall : BOOLEAN, v_neg : BOOLEAN,
                  high : BOOLEAN, a4 : {-8, -4, -2, 0, 2, 4, 8}]
Next == UNCHANGED <<env, p>>
Spec == Init /\ [][Next]_<<env, p>>
\* the goal step of the continuous car is rewarded, the terminating Acrobot step costs nothing, CartPole always pays
GoalStepIsRewarded == (env = "ContinuousMountainCar" /\ R!Terminal(env, p)) => R!Reward(env, p) >= 99900
AcrobotTerminalStepIsFree == (env = "Acrobot" /\ R!Terminal(env, p)) => R!Reward(env, p) = 0
CartPoleAlwaysPays == env = "CartPole" => R!Reward(env, p) = 1000
ControlCostBounded == env = "ContinuousMountainCar" => R!Reward(env, p) \in {-100, -25, 0, 99900, 99975, 100000}
=============================================================================
