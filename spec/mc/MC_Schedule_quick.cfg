SPECIFICATION Spec
CONSTANT MaxTotal = 8
INVARIANT IterCountBounded
INVARIANT StepsConsumed
INVARIANT TargetIsLastMultiple
INVARIANT AlphaOnlyIfAutotune
INVARIANT ExactlyNumIterations
PROPERTY UnchangedInBetween
PROPERTY ActorOnlyOnSchedule
PROPERTY PolyakOncePerIteration
CHECK_DEADLOCK FALSE
