---------------------------- MODULE MC_Minibatch ----------------------------
EXTENDS Integers, Sequences, FiniteSets, TLC
CONSTANT MaxN
VARIABLES cfg, epoch, rows, next, used, visits
Mb == INSTANCE Minibatch
vars == <<cfg, epoch, rows, next, used, visits>>
Init == \E E \in 1..3, S \in 1..3, B \in 1..4, ep \in 1..2 :
           E * S <= MaxN /\ B <= E * S /\ Mb!Init([E |-> E, S |-> S, B |-> B, epochs |-> ep])
Perms == {p \in [1..Mb!N -> 1..Mb!N] : {p[i] : i \in 1..Mb!N} = 1..Mb!N}
DoStart == \E p \in Perms : Mb!StartEpoch(p)
DoConsume == epoch >= 1 /\ Mb!Consume
Next == DoStart \/ DoConsume
Spec == Init /\ [][Next]_vars
AtMostOncePerEpoch == Mb!AtMostOncePerEpoch
UsedCount == Mb!UsedCount
DroppedFewerThanB == Mb!DroppedFewerThanB
FlattenBijective == Mb!FlattenBijective
VisitsBounded == Mb!VisitsBounded
VisitTotal == Mb!VisitTotal
=============================================================================
