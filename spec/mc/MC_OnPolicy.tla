---------------------------- MODULE MC_OnPolicy ----------------------------
(* Bounded instance of OnPolicy: all configurations in CFG_FILE x all policy   *)
(* choices x all reset draws; checks that the implementation-shaped collector   *)
(* satisfies the declarative sentences of C04 and that post_collect's reverse   *)
(* scan equals the declarative GAE definition (C03) on the collected rows.      *)
EXTENDS Integers, Sequences, FiniteSets, TLC, Json, IOUtils

VARIABLES cfg, es, ps, rows, adv, ret, seen
O == INSTANCE OnPolicy
M == INSTANCE MDP
G == INSTANCE GAE
vars == <<cfg, es, ps, rows, adv, ret, seen>>

Cfgs == JsonDeserialize(IOEnv.CFG_FILE)

Init == \E i \in 1..Len(Cfgs) :
           \E s0 \in {Cfgs[i].Init[j] : j \in 1..Len(Cfgs[i].Init)} :
              O!Init(Cfgs[i], [s |-> s0, cnt |-> [k \in 1..Len(Cfgs[i].stack) |-> 0]], 0)

AllRaw == UNION {O!Cands(p) : p \in 0..(cfg.P - 1)} \cup (IF cfg.hasMask THEN 0..(cfg.nA - 1) ELSE {})
DoCollect == \E raw \in AllRaw, s0 \in M!InitSet : O!CollectStep(raw, s0)
DoPost == O!PostCollect
Next == DoCollect \/ DoPost
Spec == Init /\ [][Next]_vars

\* spec -> code: print every reachable carried state (configuration, wrapped environment state, policy state); lvf/onpolicy_suite.py
\* places the real collector in each of them and runs one real step per key (state cover of the bounded model)
Emit == PrintT(<<"ST", cfg.id, es.s, es.cnt, ps>>)

RatioOne == O!RatioOne
EnvSawClipped == O!EnvSawClipped
RestartAfterDone == O!RestartAfterDone
PolicyStateCounts == O!PolicyStateCounts
BootstrapOnlyThroughTruncation == O!BootstrapOnlyThroughTruncation
MaskRespected == O!MaskRespected
\* post_collect (reverse masked scan) = declarative GAE on the collected rows
AdvIsDeclarativeGAE ==
  adv # <<>> => \A t \in 1..cfg.H : /\ adv[t] = G!DeclAdv(O!GaeCase, t)
                                    /\ ret[t] = adv[t] + rows[t].val * G!D(O!GaeCase)
GaeExact == adv # <<>> => G!ScanExact(O!GaeCase, 1)
=============================================================================
