SPECIFICATION Spec
CONSTANT MaxN = 4
INVARIANT SumsToOne
INVARIANT ZeroOutsideMask
INVARIANT RatiosPreserved
INVARIANT ModeIsAllowedArgMax
INVARIANT ProductMass
CHECK_DEADLOCK FALSE
