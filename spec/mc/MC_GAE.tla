------------------------------- MODULE MC_GAE -------------------------------
(* Exhaustive check of GAE.tla: for every case of the bounded space the         *)
(* implementation-shaped reverse masked scan equals the declarative definition  *)
(* (C03), with its corollaries.  Each initial state is one case; there are no   *)
(* transitions.                                                                 *)
EXTENDS Integers, Sequences, FiniteSets, TLC

CONSTANTS TT,      \* rollout length
          Rs,      \* reward numerators (over Den)
          Vs,      \* integer values
          Gs, Ls,  \* numerators of gamma, lambda (over Den)
          Den

RsA == {-4, 0, 8, 2}
RsB == {-4, 0, 8}
GsA == {2, 4, 3}
GsB == {2, 4}

VARIABLE c
G == INSTANCE GAE

Init == \E r \in [1..TT -> Rs], v \in [1..TT -> Vs], d \in [1..TT -> BOOLEAN], last \in Vs, gn \in Gs, ln \in Ls :
           c = [T |-> TT, r |-> r, v |-> v, d |-> d, last |-> last, gn |-> gn, ln |-> ln, den |-> Den]
Next == UNCHANGED c
Spec == Init /\ [][Next]_c

Exact == G!ScanExact(c, 1)
MatchesDefinition == \A t \in 1..TT : G!ScanAdv(c, t) = G!DeclAdv(c, t)
Lambda1IsMonteCarlo == c.ln = Den => \A t \in 1..TT : G!ScanRet(c, t) = G!McReturn(c, t)
Lambda0IsTD == c.ln = 0 => \A t \in 1..TT : G!ScanAdv(c, t) = G!TdError(c, t)
ReturnIsAdvPlusValue == \A t \in 1..TT : G!ScanRet(c, t) = G!ScanAdv(c, t) + c.v[t] * G!D(c)

\* nothing recorded after an episode end influences the estimates before it:
\* blank everything after the first done step e; estimates at t <= e are unchanged
Blank(e) == [c EXCEPT !.r = [t \in 1..TT |-> IF t > e THEN 0 ELSE c.r[t]],
                      !.v = [t \in 1..TT |-> IF t > e THEN 0 ELSE c.v[t]],
                      !.d = [t \in 1..TT |-> IF t > e THEN FALSE ELSE c.d[t]],
                      !.last = 0]
CutAtDone == \A e \in 1..TT : c.d[e] => \A t \in 1..e : G!ScanAdv(c, t) = G!ScanAdv(Blank(e), t)
=============================================================================
