SPECIFICATION Spec
CONSTANTS
  MaxCap = 4
  MaxAdds = 9
  MaxN = 1
INVARIANT Recent
INVARIANT RecentBag
INVARIANT ValidAreStored
INVARIANT SamplesAreStored
INVARIANT StoredCount
CHECK_DEADLOCK FALSE
