----------------------------- MODULE MC_EnvAPI -----------------------------
(* Bounded instance of EnvAPI: all configurations in CFG_FILE (written by     *)
(* lvf/props/c01.py: small hand-made and random MDPs x wrapper stacks) x all  *)
(* action histories up to the level bound.                                    *)
EXTENDS Integers, Sequences, FiniteSets, TLC, Json, IOUtils

VARIABLES cfg, st, out, eplen
E == INSTANCE EnvAPI
M == INSTANCE MDP
vars == <<cfg, st, out, eplen>>

Cfgs == JsonDeserialize(IOEnv.CFG_FILE)
MaxLevel == 9

Init == \E i \in 1..Len(Cfgs) : E!Init(Cfgs[i])
Acts == {cfg.acts[i] : i \in 1..Len(cfg.acts)}
DoReset == E!Reset
DoStep == \E a \in Acts : E!Step(a)
Next == DoReset \/ DoStep
Spec == Init /\ [][Next]_vars

Bound == TLCGet("level") <= MaxLevel
\* spec -> code: print every reachable (configuration, wrapped state, episode clock); lvf/props/c01.py executes every action of
\* the configuration from every one of these states on the real objects (edge cover of the bounded model's state graph)
BoundEmit == Bound /\ (E!Started => PrintT(<<"ST", cfg.id, st.s, st.cnt, eplen>>))

ObsIsOfState == E!ObsIsOfState
FreshIffDone == E!FreshIffDone
CountersAreClock == E!CountersAreClock
NeverPastLimit == E!NeverPastLimit
ExactStack == M!ExactStack
TruncExact == [][\A a \in Acts : E!TruncExactAt(a)]_vars
SignalsOfTransitionTaken == [][\A a \in Acts : E!SignalsOfTransitionTaken(a)]_vars
SuccessorOtherwise == [][\A a \in Acts : E!SuccessorOtherwise(a)]_vars
=============================================================================
