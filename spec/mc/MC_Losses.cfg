SPECIFICATION Spec
INVARIANT MaskAgrees
INVARIANT NeverBootstrapsThroughTermination
INVARIANT BootstrapsThroughTruncation
INVARIANT DoubleDiffersOnlyWhereArgMaxDiffers
INVARIANT ZeroGradOutsideClip
INVARIANT OnPolicyIsMinusMeanAdvantage
INVARIANT ValueClippingNeverLowersTheLoss
CHECK_DEADLOCK FALSE
