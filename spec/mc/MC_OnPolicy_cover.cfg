SPECIFICATION Spec
CONSTRAINT Emit
INVARIANT RatioOne
INVARIANT EnvSawClipped
INVARIANT RestartAfterDone
INVARIANT PolicyStateCounts
INVARIANT BootstrapOnlyThroughTruncation
INVARIANT MaskRespected
INVARIANT AdvIsDeclarativeGAE
INVARIANT GaeExact
CHECK_DEADLOCK FALSE
