SPECIFICATION Spec
INVARIANT EqIsEquivalence
INVARIANT EqualSpacesEqualMembers
INVARIANT MembersFlattenToFlatSize
INVARIANT FlattenInjectiveOnMembers
INVARIANT FlattenInSpaceOrderAgrees
INVARIANT SomeMemberSomeNonMember
CHECK_DEADLOCK FALSE
