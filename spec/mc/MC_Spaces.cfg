SPECIFICATION Spec
INVARIANT EqIsEquivalence
INVARIANT EqualSpacesEqualMembers
INVARIANT MembersFlattenToFlatSize
INVARIANT FlattenInjectiveOnMembers
INVARIANT SomeMemberSomeNonMember
CHECK_DEADLOCK FALSE
