SPECIFICATION Spec
CONSTANTS
  TT = 4
  Rs <- RsB
  Vs = {0, 1}
  Gs <- GsB
  Ls = {0, 2, 4}
  Den = 4
INVARIANT Exact
INVARIANT MatchesDefinition
INVARIANT Lambda1IsMonteCarlo
INVARIANT Lambda0IsTD
INVARIANT ReturnIsAdvPlusValue
INVARIANT CutAtDone
CHECK_DEADLOCK FALSE
