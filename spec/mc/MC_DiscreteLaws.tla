--------------------------- MODULE MC_DiscreteLaws ---------------------------
(* all weight vectors over 1..3 of length <= MaxN, all non-empty masks *)
EXTENDS Integers, Sequences, FiniteSets, TLC
CONSTANT MaxN
VARIABLES w, m
L == INSTANCE DiscreteLaws
Init == \E n \in 1..MaxN : /\ w \in [1..n -> 1..3]
                           /\ m \in [1..n -> BOOLEAN] /\ \E i \in 1..n : m[i]
Next == UNCHANGED <<w, m>>
Spec == Init /\ [][Next]_<<w, m>>
SumsToOne == L!SumsToOne(w, m)
ZeroOutsideMask == L!ZeroOutsideMask(w, m)
RatiosPreserved == L!RatiosPreserved(w, m)
ModeIsAllowedArgMax == L!ArgMax(w, m) # {} /\ L!ArgMax(w, m) \subseteq L!Allowed(m)
\* a two-component product law has mass 1: sum over joint outcomes of num = den
ProductMass == Len(w) >= 2 =>
   LET dims == <<1, Len(w) - 1>> IN
   L!Sum([x \in 1..(Len(w) - 1) |-> L!ProdNum(w, [i \in 1..Len(w) |-> TRUE], dims, <<0, x - 1>>, 2)])
      = L!ProdDen(w, [i \in 1..Len(w) |-> TRUE], dims, 2)
=============================================================================
