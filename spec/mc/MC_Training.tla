----------------------------- MODULE MC_Training -----------------------------
EXTENDS Integers, Sequences, TLC
VARIABLES cfg, pc, iter, insteps, nsteps, log
T == INSTANCE Training
Init == \E off \in BOOLEAN, ls \in 0..3, S \in 1..3, total \in 0..7 : (off \/ ls = 0) /\ T!Init([offpolicy |-> off, ls |-> ls, S |-> S, total |-> total])
Spec == Init /\ [][T!Next]_<<cfg, pc, iter, insteps, nsteps, log>>
StartAndEndExactlyOnce == T!StartAndEndExactlyOnce
OneOnStepPerEnvironmentStep == T!OneOnStepPerEnvironmentStep
OneOnIterationPerIteration == T!OneOnIterationPerIteration
IterationCallbacksInOrder == T!IterationCallbacksInOrder
StartBeforeStepsOfIterations == T!StartBeforeStepsOfIterations
Terminates == <>(pc = "done")
=============================================================================
