----------------------------- MODULE MC_EnvOpaque -----------------------------
EXTENDS Integers, Sequences, FiniteSets, TLC
VARIABLES limits, cnt, eplen, started
E == INSTANCE EnvOpaque
Init == \E ls \in {<<>>, <<1>>, <<3>>, <<2, 4>>, <<4, 2>>, <<3, 3, 5>>} : E!Init(ls)
DoStep == \E t \in BOOLEAN, u \in BOOLEAN : E!Step(t, u)
Next == E!Reset \/ DoStep
Spec == Init /\ [][Next]_<<limits, cnt, eplen, started>>
Bound == eplen <= 8
CountersAreClock == E!CountersAreClock
NeverPastLimit == E!NeverPastLimit
=============================================================================
