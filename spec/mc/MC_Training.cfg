SPECIFICATION Spec
INVARIANT StartAndEndExactlyOnce
INVARIANT OneOnStepPerEnvironmentStep
INVARIANT OneOnIterationPerIteration
INVARIANT IterationCallbacksInOrder
INVARIANT StartBeforeStepsOfIterations
CHECK_DEADLOCK FALSE
