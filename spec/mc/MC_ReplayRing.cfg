SPECIFICATION Spec
CONSTANTS
  MaxCap = 3
  MaxAdds = 7
  MaxN = 1
INVARIANT Recent
INVARIANT RecentBag
INVARIANT ValidAreStored
INVARIANT SamplesAreStored
INVARIANT StoredCount
CHECK_DEADLOCK FALSE
