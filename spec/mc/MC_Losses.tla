------------------------------ MODULE MC_Losses ------------------------------
(* Exhaustive case enumeration for the structural sentences of C07 / C08:       *)
(*  - the implementation's not_terminal mask equals "not truly terminated" on   *)
(*    all four flag combinations (including the unreachable done=F, timeout=T); *)
(*  - Double DQN differs from vanilla max exactly where the two arg-maxes differ *)
(*    (non-vacuity of the Double-DQN clause);                                   *)
(*  - the clipped surrogate has zero derivative exactly outside the clip in the *)
(*    favoured direction, and on on-policy data equals -mean(A);                *)
(*  - value clipping: the clipped error can only increase the loss.             *)
EXTENDS Integers, Sequences, FiniteSets, TLC
VARIABLES kind, c
L == INSTANCE Losses
Rows == [o : {1}, a : {1, 2}, r : {-1, 2}, o2 : {1, 2}, done : BOOLEAN, timeout : BOOLEAN]
QTabs == [1..2 -> [1..2 -> {0, 1, 3}]]
Smp == [rq : {2, 3, 4, 5, 6}, A : {-2, -1, 1, 2}, v4 : {0, 3}, vold4 : {1}, ret4 : {0, 2, 6}, ent4 : {0}, lp4 : {0}]
Init == \/ /\ kind = "td"
           /\ \E row \in Rows, qon \in QTabs, qtg \in QTabs : c = [rows |-> <<row>>, Qon |-> qon, Qtg |-> qtg, g2 |-> 1]
        \/ /\ kind = "pg"
           /\ \E s1 \in Smp, s2 \in Smp, cl \in BOOLEAN :
                 c = [S |-> <<s1, s2>>, normalize |-> FALSE, astd |-> 1, clipv |-> cl, cv2 |-> 1, ce2 |-> 0]
Next == UNCHANGED <<kind, c>>
Spec == Init /\ [][Next]_<<kind, c>>
MaskAgrees == kind = "td" => L!MaskAgrees(c.rows[1])
NeverBootstrapsThroughTermination ==
  kind = "td" => (L!Terminated(c.rows[1]) => L!DqnTarget2(c, c.rows[1]) = 2 * c.rows[1].r)
BootstrapsThroughTruncation ==
  kind = "td" => ((c.rows[1].done /\ c.rows[1].timeout) => L!DqnTarget2(c, c.rows[1]) = 2 * c.rows[1].r + c.g2 * L!VNextDouble(c, c.rows[1]))
DoubleDiffersOnlyWhereArgMaxDiffers ==
  kind = "td" => (L!ArgMaxFirst(c.Qon[c.rows[1].o2]) = L!ArgMaxFirst(c.Qtg[c.rows[1].o2]) => L!VNextDouble(c, c.rows[1]) = L!VNextVanilla(c, c.rows[1]))
ZeroGradOutsideClip ==
  kind = "pg" => \A i \in 1..2 : LET s == c.S[i] IN
     \* finite difference in the ratio: the surrogate is locally constant in r iff outside the clip (strictly)
     (L!OutsideClip(s.rq, s.A) => L!Surr4(s.rq, s.A) = L!Surr4(s.rq + (IF s.A > 0 THEN 1 ELSE -1), s.A))
OnPolicyIsMinusMeanAdvantage ==
  (kind = "pg" /\ L!OnPolicy(c)) => L!PpoPolicy4B(c) = 0 - 4 * (c.S[1].A + c.S[2].A)
ValueClippingNeverLowersTheLoss ==
  kind = "pg" => L!Value32B(c) >= L!Value32B([c EXCEPT !.clipv = FALSE])
=============================================================================
