SPECIFICATION Spec
CONSTANT MaxTotal = 10
INVARIANT IterCountBounded
INVARIANT StepsConsumed
INVARIANT TargetIsLastMultiple
INVARIANT AlphaOnlyIfAutotune
INVARIANT ExactlyNumIterations
PROPERTY UnchangedInBetween
PROPERTY ActorOnlyOnSchedule
PROPERTY PolyakOncePerIteration
CHECK_DEADLOCK FALSE
