SPECIFICATION Spec
CONSTANTS
  Dirs = {"a", "a_b"}
  Stems = {"p", "m.v2"}
  NPol = 4
  MaxLevel = 4
CONSTRAINT Bound
INVARIANT RoundTrip
INVARIANT NoPartialLoad
INVARIANT ParentsCreated
CHECK_DEADLOCK FALSE
