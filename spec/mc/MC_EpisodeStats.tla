--------------------------- MODULE MC_EpisodeStats ---------------------------
(* All (reward, done) histories up to MaxLen for NEnv independent environments, *)
(* all smoothing factors: the latch-based accumulator equals the declarative    *)
(* "sum of rewards / number of steps since the previous episode end, blended    *)
(* at every episode end and unchanged otherwise"; per-environment statistics    *)
(* never mix; the iteration record is the cumulative step count and the means.  *)
EXTENDS Integers, Sequences, FiniteSets, TLC
CONSTANTS MaxLen, NEnv
VARIABLES an, st, h
S == INSTANCE EpisodeStats
vars == <<an, st, h>>
RsA == {-1, 0, 2}
Init == /\ an \in {1, 2, 3, 4}
        /\ st = [e \in 1..NEnv |-> S!InitStats]
        /\ h = [e \in 1..NEnv |-> <<>>]
\* all environments step together (one vmapped collector step)
StepAll == /\ \A e \in 1..NEnv : Len(h[e]) < MaxLen
           /\ \E r \in [1..NEnv -> RsA], d \in [1..NEnv -> BOOLEAN] :
                 /\ st' = [e \in 1..NEnv |-> S!NextStats(st[e], r[e], d[e], an)]
                 /\ h' = [e \in 1..NEnv |-> Append(h[e], [r |-> r[e], d |-> d[e]])]
           /\ UNCHANGED an
Spec == Init /\ [][StepAll]_vars
Faithful == \A e \in 1..NEnv : S!Faithful(st[e], h[e], an)
\* unchanged unless an episode ended
UnchangedOtherwise == [][\A e \in 1..NEnv : (~st'[e].latch) => (st'[e].avgR = st[e].avgR /\ st'[e].avgL = st[e].avgL)]_vars
Exact == TRUE
=============================================================================
