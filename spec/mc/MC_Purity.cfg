SPECIFICATION Spec
CONSTANTS
  NIter = 4
  Keys = {1, 2, 3}
  ObsVals = {0, 1, 2}
INVARIANT Agree
CHECK_DEADLOCK FALSE
