------------------------------ MODULE Schedule ------------------------------
(***************************************************************************)
(* The training schedule of lerax (C10):                                   *)
(*   learn():      exactly total \div (E*S) iterations                     *)
(*   iteration():  collect E*S steps, train, state.next (counter + 1),     *)
(*                 callbacks, per_iteration                                *)
(*   DQN.per_iteration:  target <- online iff counter % K = 0, evaluated   *)
(*                       *after* the increment                             *)
(*   SAC.sac_train:      critics every iteration; actor (and, when         *)
(*                       autotuning, the temperature) iff counter % pf = 0 *)
(*                       evaluated on the *pre-increment* counter          *)
(*   SAC.per_iteration:  theta' <- tau*theta + (1-tau)*theta' once         *)
(* Parameters are abstracted to version numbers (every training step       *)
(* produces a fresh version); SAC's critic additionally carries a scalar   *)
(* dyadic weight so that Polyak averaging is computed exactly (tau = tn/4, *)
(* weights in units of 1/WD).                                              *)
(***************************************************************************)
EXTENDS Integers, Sequences, FiniteSets

VARIABLES cfg,     \* [alg, total, E, S, K, pf, auto, tn, ls]
          iter,    \* iteration counter
          steps,   \* environment steps consumed (incl. warm-up)
          onl,     \* version of the online network (DQN policy / SAC critics)
          tgt,     \* DQN: version the target was copied from
          actor, alpha,          \* SAC: versions of actor and temperature
          theta, thetaT,         \* SAC: scalar critic weight and its target (units 1/WD)
          snap,    \* history: snap[i+1] = online version after i iterations
          fresh    \* next unused version number

vars == <<cfg, iter, steps, onl, tgt, actor, alpha, theta, thetaT, snap, fresh>>
WD == 4096

NumIterations == cfg.total \div (cfg.E * cfg.S)

Init(c) == /\ cfg = c /\ iter = 0 /\ steps = c.ls * c.E
           /\ onl = 0 /\ tgt = 0 /\ actor = 0 /\ alpha = 0 /\ theta = 0 /\ thetaT = 0
           /\ snap = <<0>> /\ fresh = 1

\* one call of iteration(); newTheta is the critic weight after this iteration's critic update
Iterate(newTheta) ==
  /\ iter < NumIterations
  /\ steps' = steps + cfg.E * cfg.S
  /\ onl' = fresh
  /\ LET upd == (iter % cfg.pf = 0) IN           \* pre-increment counter (sac.py: iteration_count % policy_frequency)
       /\ actor' = IF cfg.alg = "SAC" /\ upd THEN fresh ELSE actor
       /\ alpha' = IF cfg.alg = "SAC" /\ upd /\ cfg.auto THEN fresh ELSE alpha
  /\ fresh' = fresh + 1
  /\ iter' = iter + 1
  /\ tgt' = IF cfg.alg = "DQN" /\ iter' % cfg.K = 0 THEN onl' ELSE tgt      \* post-increment counter
  /\ theta' = IF cfg.alg = "SAC" THEN newTheta ELSE theta
  /\ thetaT' = IF cfg.alg = "SAC" THEN (cfg.tn * theta' + (4 - cfg.tn) * thetaT) \div 4 ELSE thetaT
  /\ snap' = Append(snap, onl')
  /\ UNCHANGED cfg

(* ------------------------------ declarative properties ------------------------------ *)
IterCountBounded == iter <= NumIterations
StepsConsumed == steps = cfg.ls * cfg.E + iter * cfg.E * cfg.S
SnapIsHistory == Len(snap) = iter + 1
\* DQN: target = online network as of the most recent iteration whose count is a multiple of K
TargetIsLastMultiple == cfg.alg = "DQN" => tgt = snap[cfg.K * (iter \div cfg.K) + 1]
\* ... and unchanged in between
UnchangedInBetween == [][(cfg.alg = "DQN" /\ iter' % cfg.K # 0) => tgt' = tgt]_vars
ActorOnlyOnSchedule == [][(iter % cfg.pf # 0) => (actor' = actor /\ alpha' = alpha)]_vars
AlphaOnlyIfAutotune == ~cfg.auto => alpha = 0
\* SAC: exactly one Polyak step per iteration, towards the *new* online weights
PolyakOncePerIteration ==
  [][cfg.alg = "SAC" => 4 * thetaT' = cfg.tn * theta' + (4 - cfg.tn) * thetaT]_vars
PolyakExact == (cfg.tn * theta + (4 - cfg.tn) * thetaT) % 1 = 0
=============================================================================
