---------------------------- MODULE EpisodeStats ----------------------------
(***************************************************************************)
(* Episode statistics of lerax's LoggingCallback                           *)
(* (LoggingCallbackStepState.next, src/lerax/callback/logging/callback.py).*)
(*                                                                         *)
(* Pure operators over a statistics record                                 *)
(*   [step, ret, len, latch, avgR, avgL]                                   *)
(* so that the collector specifications can carry one per environment.     *)
(* alpha = an/4.  ret is in reward units, avgR / avgL are integers in      *)
(* units of 1/SD (SD = 4^8: exact for up to 8 episode ends).               *)
(*                                                                         *)
(* NextStats is implementation-shaped (the `episode_done' latch: the       *)
(* accumulators are cleared on the step *after* a done step).  Decl* is    *)
(* the declarative reading over the full (reward, done) history.           *)
(***************************************************************************)
EXTENDS Integers, Sequences

SD == 65536
InitStats == [step |-> 0, ret |-> 0, len |-> 0, latch |-> FALSE, avgR |-> 0, avgL |-> 0]

NextStats(st, r, d, an) ==
  LET ret2 == (IF st.latch THEN 0 ELSE st.ret) + r
      len2 == (IF st.latch THEN 0 ELSE st.len) + 1
  IN [step |-> st.step + 1, ret |-> ret2, len |-> len2, latch |-> d,
      avgR |-> IF d THEN (an * ret2 * SD + (4 - an) * st.avgR) \div 4 ELSE st.avgR,
      avgL |-> IF d THEN (an * len2 * SD + (4 - an) * st.avgL) \div 4 ELSE st.avgL]

NextExact(st, r, d, an) ==
  d => /\ ((4 - an) * st.avgR) % 4 = 0
       /\ ((4 - an) * st.avgL) % 4 = 0

(* ---------------- declarative: from the history h = << [r, d] >> alone ---------------- *)
\* index of the last done step strictly before k (0 if none)
RECURSIVE PrevDone(_, _)
PrevDone(h, k) == IF k <= 1 THEN 0 ELSE IF h[k - 1].d THEN k - 1 ELSE PrevDone(h, k - 1)
RECURSIVE SumR(_, _, _)
SumR(h, i, j) == IF i > j THEN 0 ELSE h[i].r + SumR(h, i + 1, j)

\* EMA of episode returns / lengths after the first k steps
RECURSIVE EmaR(_, _, _)
EmaR(h, k, an) ==
  IF k = 0 THEN 0
  ELSE IF h[k].d THEN (an * SumR(h, PrevDone(h, k) + 1, k) * SD + (4 - an) * EmaR(h, k - 1, an)) \div 4
       ELSE EmaR(h, k - 1, an)
RECURSIVE EmaL(_, _, _)
EmaL(h, k, an) ==
  IF k = 0 THEN 0
  ELSE IF h[k].d THEN (an * (k - PrevDone(h, k)) * SD + (4 - an) * EmaL(h, k - 1, an)) \div 4
       ELSE EmaL(h, k - 1, an)

Faithful(st, h, an) ==
  LET n == Len(h) IN
  /\ st.step = n
  /\ st.avgR = EmaR(h, n, an)
  /\ st.avgL = EmaL(h, n, an)
  /\ n > 0 => /\ st.latch = h[n].d
              /\ st.ret = SumR(h, PrevDone(h, n + 1) + 1, n) + (IF h[n].d THEN SumR(h, PrevDone(h, n) + 1, n) ELSE 0)
              /\ st.len = IF h[n].d THEN n - PrevDone(h, n) ELSE n - PrevDone(h, n + 1)
=============================================================================
