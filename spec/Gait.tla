-------------------------------- MODULE Gait --------------------------------
(***************************************************************************)
(* Gait phase of the Unitree G1 environments (C20) in integer ticks:       *)
(* one cycle = K ticks (K even), the per-step increment is m = K*f*dt      *)
(* ticks, a phase p stands for the angle 2 pi p / K.                       *)
(*   Advance mirrors  fmod(phase + 2 pi f dt + pi, 2 pi) - pi              *)
(*   (src/lerax/env/unitree/g1/gait.py); initial phases <<0, K/2>>.        *)
(* Desired foot height: two cubic Bezier halves of x = (p + K/2)/K,        *)
(* b(u) = 3u^2 - 2u^3; as an exact rational of the swing height:           *)
(*   HNum(p) / K^3.                                                        *)
(***************************************************************************)
EXTENDS Integers

VARIABLES K, m, left, right, steps
vars == <<K, m, left, right, steps>>
Half == K \div 2

Advance(p) == ((p + m + Half) % K) - Half
Init(k, inc) == K = k /\ m = inc /\ left = 0 /\ right = k \div 2 /\ steps = 0
Step == left' = Advance(left) /\ right' = Advance(right) /\ steps' = steps + 1 /\ UNCHANGED <<K, m>>

\* numerator over K^3 of height / swing_height
HNum(p) ==
  LET n == 2 * p + K IN             \* u = n / K in [0, 2]
  IF n <= K THEN 3 * n * n * K - 2 * n * n * n
  ELSE LET q == n - K IN K * K * K - (3 * q * q * K - 2 * q * q * q)

(* ------------------------------ declarative properties ------------------------------ *)
InRange == left \in (-Half)..Half /\ right \in (-Half)..Half
HalfCycleApart == (right - left) % K = Half
\* m is any non-negative number of ticks: a gait frequency above one cycle per control step (m >= K) wraps several times
AdvancesByIncrement == [][(left' - left) % K = m % K /\ (right' - right) % K = m % K]_vars
HeightWithinSwing == \A p \in (-Half)..Half : HNum(p) >= 0 /\ HNum(p) <= K * K * K
HeightVanishesAtMinusPiAndPeaksAtZero == HNum(-Half) = 0 /\ HNum(0) = K * K * K /\ HNum(Half) = 0
HeightMonotoneOnEachHalf ==
  /\ \A p \in (-Half)..(-1) : HNum(p) <= HNum(p + 1)
  /\ \A p \in 0..(Half - 1) : HNum(p) >= HNum(p + 1)
=============================================================================
