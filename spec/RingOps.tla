------------------------------ MODULE RingOps ------------------------------
(* Pure ring-buffer operators shared by ReplayRing.tla and OffPolicy.tla.     *)
(* A ring is [slots |-> function 0..cap-1 -> row, pos |-> number of inserts]. *)
EXTENDS Integers, Sequences, FiniteSets

RMin(a, b) == IF a < b THEN a ELSE b
EmptyRing(cap, empty) == [slots |-> [i \in 0..(cap - 1) |-> empty], pos |-> 0]
\* implementation shape of ReplayBuffer.add: idx = position % size, then position + 1
RingAdd(r, row, cap) == [slots |-> [r.slots EXCEPT ![r.pos % cap] = row], pos |-> r.pos + 1]
RingStored(r, cap) == RMin(r.pos, cap)
\* declarative: the ring holds exactly the last min(n, cap) elements of history h, each where it was written
RingIsRecent(r, h, cap) ==
  /\ r.pos = Len(h)
  /\ \A k \in 1..RMin(Len(h), cap) : r.slots[(Len(h) - k) % cap] = h[Len(h) - k + 1]
=============================================================================
