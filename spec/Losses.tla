-------------------------------- MODULE Losses --------------------------------
(***************************************************************************)
(* Training objectives of lerax in exact integer arithmetic (C07, C08).    *)
(* All operators are pure; a *case* carries dyadic inputs as integers.     *)
(*                                                                         *)
(* TD part (DQN.dqn_loss, SAC.sac_train target + q_loss):                  *)
(*   row = [o, a, r, o2, done, timeout]; gamma = g2/2                      *)
(*   implementation shape:  not_terminal = ~done \/ timeout                *)
(*   declarative:           terminated   = done /\ ~timeout                *)
(* PG part (PPO.ppo_loss, A2C.a2c_loss, REINFORCE.reinforce_loss):         *)
(*   per sample: rq = ratio in quarters, A = advantage (integer),          *)
(*   v4, vold4, ret4 = values / returns in quarters, ent4 = entropy in     *)
(*   quarters, lp4 = log-prob in quarters; eps = 1/4.                      *)
(***************************************************************************)
EXTENDS Integers, Sequences, FiniteSets

RECURSIVE SumTo(_, _)
SumTo(s, i) == IF i = 0 THEN 0 ELSE s[i] + SumTo(s, i - 1)
Sum(s) == SumTo(s, Len(s))
Min2(a, b) == IF a < b THEN a ELSE b
Max2(a, b) == IF a > b THEN a ELSE b
ClipTo(x, lo, hi) == Max2(lo, Min2(x, hi))
Abs(x) == IF x < 0 THEN -x ELSE x
Sq(x) == x * x

(* ------------------------------------ TD targets ------------------------------------ *)
NotTerminalImpl(row) == ~row.done \/ row.timeout                \* dqn.py / sac.py
Terminated(row) == row.done /\ ~row.timeout                      \* the property: true termination
MaskAgrees(row) == NotTerminalImpl(row) = ~Terminated(row)

\* first index attaining the maximum (jnp.argmax)
ArgMaxFirst(q) == CHOOSE i \in 1..Len(q) : (\A j \in 1..Len(q) : q[j] <= q[i]) /\ (\A j \in 1..(i - 1) : q[j] < q[i])

\* Double DQN: the target network's value of the online network's greedy action
VNextDouble(c, row) == c.Qtg[row.o2][ArgMaxFirst(c.Qon[row.o2])]
VNextVanilla(c, row) == c.Qtg[row.o2][ArgMaxFirst(c.Qtg[row.o2])]
\* target in half units: 2 r + g2 (1 - terminated) V'
DqnTarget2(c, row) == 2 * row.r + (IF Terminated(row) THEN 0 ELSE c.g2 * VNextDouble(c, row))
\* loss * 8B  =  sum (2 Q(o,a) - target2)^2
DqnLoss8B(c) == Sum([i \in 1..Len(c.rows) |-> Sq(2 * c.Qon[c.rows[i].o][c.rows[i].a] - DqnTarget2(c, c.rows[i]))])
\* semi-gradient w.r.t. the online table entry (o, a), times 2B: the target is a constant
DqnGrad2B(c, o, a) == Sum([i \in 1..Len(c.rows) |->
                             IF c.rows[i].o = o /\ c.rows[i].a = a THEN 2 * c.Qon[o][a] - DqnTarget2(c, c.rows[i]) ELSE 0])

\* SAC: constants in quarters (q1, q2 online critics; q1t, q2t target critics; lp = log pi of the fresh next action);
\* temperature alpha = c.a (an integer; 1 where a case does not say)
Alpha(c) == IF "a" \in DOMAIN c THEN c.a ELSE 1
SacTarget8(c, row) == 8 * row.r + (IF Terminated(row) THEN 0 ELSE c.g2 * (Min2(c.q1t, c.q2t) - Alpha(c) * c.lp))
SacQLoss128B(c) == Sum([i \in 1..Len(c.rows) |-> Sq(2 * c.q1 - SacTarget8(c, c.rows[i])) + Sq(2 * c.q2 - SacTarget8(c, c.rows[i]))])

(* ------------------------------------ policy-gradient objectives ------------------------------------ *)
\* advantage normalisation on batches with zero mean and common magnitude s (std = s): A / s
NormA(c) == IF c.normalize THEN [i \in 1..Len(c.S) |-> c.S[i].A \div c.astd] ELSE [i \in 1..Len(c.S) |-> c.S[i].A]
NormOK(c) == c.normalize => (Sum([i \in 1..Len(c.S) |-> c.S[i].A]) = 0 /\ \A i \in 1..Len(c.S) : Abs(c.S[i].A) = c.astd)

\* clipped surrogate per sample in quarter units: min(r A, clip(r, 1-eps, 1+eps) A), eps = 1/4
Surr4(rq, A) == Min2(rq * A, ClipTo(rq, 3, 5) * A)
PpoPolicy4B(c) == 0 - Sum([i \in 1..Len(c.S) |-> Surr4(c.S[i].rq, NormA(c)[i])])
\* value term: unclipped (v - ret)^2, or with clipping the LARGER of the clipped and unclipped squared errors (PPO2); units 1/16
VErr16(c, i) == LET s == c.S[i] un == Sq(s.v4 - s.ret4) cl == Sq(s.vold4 + ClipTo(s.v4 - s.vold4, -1, 1) - s.ret4)
                IN IF c.clipv THEN Max2(un, cl) ELSE un
Value32B(c) == Sum([i \in 1..Len(c.S) |-> VErr16(c, i)])
Entropy4B(c) == 0 - Sum([i \in 1..Len(c.S) |-> c.S[i].ent4])
\* total * 64B with c_v = cv2/2, c_e = ce2/2
PpoTotal64B(c) == 16 * PpoPolicy4B(c) + c.cv2 * Value32B(c) + c.ce2 * 8 * Entropy4B(c)

\* A2C / REINFORCE: -mean(logp * A) + c_v mean((v - ret)^2)/2 (+ c_e (-mean ent)); logp in quarters
PgPolicy4B(c) == 0 - Sum([i \in 1..Len(c.S) |-> c.S[i].lp4 * NormA(c)[i]])
PgValue32B(c) == Sum([i \in 1..Len(c.S) |-> Sq(c.S[i].v4 - c.S[i].ret4)])
A2cTotal64B(c) == 16 * PgPolicy4B(c) + c.cv2 * PgValue32B(c) + c.ce2 * 8 * Entropy4B(c)
ReinforceTotal64B(c) == 16 * PgPolicy4B(c) + c.cv2 * PgValue32B(c)

\* a sample whose ratio has left the clip interval in the direction its advantage favours contributes no policy gradient
OutsideClip(rq, A) == (A > 0 /\ rq > 5) \/ (A < 0 /\ rq < 3)
\* d surrogate / d ratio (times 1): A where the unclipped branch is active, 0 where the clipped branch is strictly smaller
GradActive(rq, A) == ~OutsideClip(rq, A)
OnPolicy(c) == \A i \in 1..Len(c.S) : c.S[i].rq = 4

\* real value x (in units of 1e-5) equals num/den up to 2e-5
Close5(x, num, den) == Abs(x * den - num * 100000) <= 2 * den
=============================================================================
