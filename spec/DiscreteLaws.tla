---------------------------- MODULE DiscreteLaws ----------------------------
(***************************************************************************)
(* Discrete probability laws of lerax (C15, C16) in exact rational         *)
(* arithmetic.                                                             *)
(*   categorical law   weights w (positive integers): P(i) = w[i] / Sum(w) *)
(*   masking           weights outside the mask m become 0, the rest are   *)
(*                     renormalised proportionally                         *)
(*   Bernoulli law     per component p = a/4                               *)
(*   product law       independent components; flat parameter vector split *)
(*                     by cumulative sums of the component sizes           *)
(* A probability is a pair <<num, den>> (not reduced); real numbers coming *)
(* from the implementation are integers in units of 1e-6.                  *)
(***************************************************************************)
EXTENDS Integers, Sequences, FiniteSets

RECURSIVE SumTo(_, _)
SumTo(s, i) == IF i = 0 THEN 0 ELSE s[i] + SumTo(s, i - 1)
Sum(s) == SumTo(s, Len(s))
Abs(x) == IF x < 0 THEN -x ELSE x
MICRO == 1000000

\* masked weights: implementation shape  where(mask, logits, -inf)
Masked(w, m) == [i \in 1..Len(w) |-> IF m[i] THEN w[i] ELSE 0]
Allowed(m) == {i \in 1..Len(m) : m[i]}
P(w, m, i) == <<Masked(w, m)[i], Sum(Masked(w, m))>>
\* a real probability p (in units of 1e-6) equals the rational <<num, den>> up to 2e-6
Close(p, q) == Abs(p * q[2] - q[1] * MICRO) <= 2 * q[2]
ArgMax(w, m) == {i \in Allowed(m) : \A j \in Allowed(m) : w[j] <= w[i]}

(* declarative sentences about masking *)
SumsToOne(w, m) == Sum([i \in 1..Len(w) |-> P(w, m, i)[1]]) = P(w, m, 1)[2]
ZeroOutsideMask(w, m) == \A i \in 1..Len(w) : ~m[i] => P(w, m, i)[1] = 0
RatiosPreserved(w, m) == \A i, j \in Allowed(m) : P(w, m, i)[1] * w[j] = P(w, m, j)[1] * w[i]

(* product laws: split a flat vector by cumulative sums of dims *)
Offset(dims, k) == SumTo(dims, k - 1)
Piece(flat, dims, k) == [j \in 1..dims[k] |-> flat[Offset(dims, k) + j]]
\* probability of the joint outcome x (0-based classes) under a masked product of categoricals
RECURSIVE ProdNum(_, _, _, _, _)
ProdNum(flat, mflat, dims, x, k) ==
  IF k = 0 THEN 1 ELSE ProdNum(flat, mflat, dims, x, k - 1) * Masked(Piece(flat, dims, k), Piece(mflat, dims, k))[x[k] + 1]
RECURSIVE ProdDen(_, _, _, _)
ProdDen(flat, mflat, dims, k) ==
  IF k = 0 THEN 1 ELSE ProdDen(flat, mflat, dims, k - 1) * Sum(Masked(Piece(flat, dims, k), Piece(mflat, dims, k)))

(* policy layer: what a policy may return under mask m, given the rank vector of its unmasked preferences *)
Greedy(ranks, m) == ArgMax(ranks, m)
ChoiceOK(mode, ranks, m, a) ==      \* a is a 0-based action
  /\ a + 1 \in Allowed(m)
  /\ (mode \in {"greedy", "eps0"}) => a + 1 \in Greedy(ranks, m)
=============================================================================
