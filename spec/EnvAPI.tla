------------------------------ MODULE EnvAPI ------------------------------
(***************************************************************************)
(* The Gym-style reset/step machine of lerax (AbstractEnvLike.reset/step,  *)
(* src/lerax/env/base_env.py) over a wrapped finite MDP (MDP.tla).         *)
(*                                                                         *)
(* One action per public call.  Step mirrors the code line by line:        *)
(*   next   = transition(state, action)                                    *)
(*   reward = reward(state, action, next); terminal(next); truncate(next)  *)
(*   state  = cond(terminal | truncate, initial(), next)                   *)
(*   obs    = observation(state)                                           *)
(* `eplen' is a history variable that no action reads: the number of       *)
(* transitions since the episode began.  The declarative properties are    *)
(* phrased with it, not with the wrapper counters.                         *)
(***************************************************************************)
EXTENDS Integers, Sequences, FiniteSets

VARIABLES cfg,   \* configuration, fixed at Init
          st,    \* wrapped environment state handed back by the last call
          out,   \* outputs of the last call [obs, rew, term, trunc]
          eplen  \* history: transitions taken in the current episode

M == INSTANCE MDP

vars == <<cfg, st, out, eplen>>

NoState == [s |-> 0, cnt |-> <<>>]
INF == M!INF
NoOut == [obs |-> -INF, rew |-> 0, term |-> FALSE, trunc |-> FALSE]
Started == st # NoState

Init(c) == cfg = c /\ st = NoState /\ out = NoOut /\ eplen = 0

Reset ==
  /\ \E s0 \in M!InitSet :
        /\ st' = M!WInitial(s0)
        /\ out' = [obs |-> M!WObs(M!WInitial(s0)), rew |-> 0, term |-> FALSE, trunc |-> FALSE]
  /\ eplen' = 0
  /\ UNCHANGED cfg

Step(a) ==
  /\ Started
  /\ LET o == M!StepOut(st, a) IN
       IF o.term \/ o.trunc
       THEN /\ \E s0 \in M!InitSet :
                 /\ st' = M!WInitial(s0)
                 /\ out' = [obs |-> M!WObs(M!WInitial(s0)), rew |-> o.rew, term |-> o.term, trunc |-> o.trunc]
            /\ eplen' = 0
       ELSE /\ st' = o.nx
            /\ out' = [obs |-> M!WObs(o.nx), rew |-> o.rew, term |-> o.term, trunc |-> o.trunc]
            /\ eplen' = eplen + 1
  /\ UNCHANGED cfg

(* ------------------------ declarative properties (C01, C13) ------------------------ *)
\* the observation handed out is the observation of the state handed out
ObsIsOfState == Started => out.obs = M!WObs(st)

\* a raised flag means: fresh initial state, clock and wrapper counters restarted
FreshIffDone == (Started /\ (out.term \/ out.trunc)) => (M!IsInitialState(st) /\ eplen = 0)

\* every wrapper counter equals the episode clock (they restart together, count together)
CountersAreClock == Started => \A i \in 1..M!Depth : M!IsTL(i) => st.cnt[i] = eplen

\* an episode never runs past the smallest limit
NeverPastLimit == eplen < M!MinLimit

\* TimeLimit(N): truncation raised at exactly the N-th step (N = smallest limit in the stack),
\* or where the inner environment truncates - never earlier, never later
TruncExactAt(a) ==
  Step(a) => LET nx == M!WTransition(st, a) IN
             out'.trunc <=> (cfg.ITrunc[nx.s] \/ eplen + 1 = M!MinLimit)

\* reward and terminal flag are those of the transition taken from the *given* state
SignalsOfTransitionTaken(a) ==
  Step(a) => LET nx == M!WTransition(st, a) IN
             /\ out'.term = cfg.Term[nx.s]
             /\ out'.rew = M!RewUp(M!Depth, cfg.R[st.s][M!WIdx(a)][nx.s])

\* not done => the returned state is the successor
SuccessorOtherwise(a) ==
  Step(a) => (~(out'.term \/ out'.trunc) => st' = M!WTransition(st, a))
=============================================================================
