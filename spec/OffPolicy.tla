----------------------------- MODULE OffPolicy -----------------------------
(***************************************************************************)
(* The off-policy collector of lerax (one environment stream):             *)
(*   AbstractOffPolicyAlgorithm.step / collect_learning_starts /           *)
(*   collect_rollout / reset / iteration (src/lerax/algorithm/             *)
(*   off_policy.py), over a wrapped finite MDP and a tabular behaviour     *)
(*   policy, writing into this stream's own replay ring.                   *)
(*                                                                         *)
(* This is the *property's* collector (C05): the stored reward and         *)
(* successor observation are those the environment produced for the        *)
(* executed (bounds-clipped) action, the successor observation is the one  *)
(* of the pre-reset successor, timeout = truncated and not terminated.     *)
(*                                                                         *)
(*   cfg.bufsize, cfg.lstarts, cfg.nsteps, cfg.N   hyper-parameters        *)
(*   cap == per-stream capacity (bufsize if N = 1 else bufsize \div N)     *)
(*   phase: "warm" (inside reset) -> "run"; iters = completed iterations   *)
(***************************************************************************)
EXTENDS Integers, Sequences, FiniteSets

VARIABLES cfg, es, ps, ring, hist, phase, iters, inphase
M == INSTANCE MDP
Ops == INSTANCE RingOps

vars == <<cfg, es, ps, ring, hist, phase, iters, inphase>>

Cap == IF cfg.N = 1 THEN cfg.bufsize ELSE cfg.bufsize \div cfg.N
EmptyRow == [obs |-> 0, nobs |-> 0, act |-> 0, rew |-> 0, done |-> FALSE, timeout |-> FALSE, pstate |-> 0]

PIdx(o) == o % cfg.P
Cands(p) == {cfg.Raw[p + 1][k] : k \in 1..cfg.K}
OuterA == M!ASpace(M!Depth)
ClipToSpace(a) == IF OuterA.kind = "box" THEN M!ClipTo(a, OuterA.lo, OuterA.hi) ELSE a

StepFacts(e, raw) ==
  LET c == ClipToSpace(raw) so == M!StepOut(e, c) IN
  [so |-> so, done |-> so.term \/ so.trunc, timeout |-> so.trunc /\ ~so.term, idx |-> M!WIdx(c)]

Init(c, s0) ==
  /\ cfg = c /\ es = M!WInitial(s0) /\ ps = 0
  /\ ring = Ops!EmptyRing(IF c.N = 1 THEN c.bufsize ELSE c.bufsize \div c.N, EmptyRow)
  /\ hist = <<>> /\ phase = "warm" /\ iters = 0 /\ inphase = 0

RowOf(e, p0, raw) ==
  LET f == StepFacts(e, raw) IN
  [obs |-> M!WObs(e), nobs |-> M!WObs(f.so.nx), act |-> raw, rew |-> f.so.rew,
   done |-> f.done, timeout |-> f.timeout, pstate |-> p0]

\* one call of step(): shared by warm-up and rollout
OffStep(raw, s0) ==
  LET f == StepFacts(es, raw) IN
  /\ raw \in Cands(PIdx(M!WObs(es)))
  /\ ring' = Ops!RingAdd(ring, RowOf(es, ps, raw), Cap)
  /\ hist' = Append(hist, [row |-> RowOf(es, ps, raw), idx |-> f.idx, term |-> f.so.term, trunc |-> f.so.trunc])
  /\ es' = IF f.done THEN M!WInitial(s0) ELSE f.so.nx
  /\ ps' = IF f.done THEN 0 ELSE ps + 1
  /\ inphase' = inphase + 1
  /\ UNCHANGED <<cfg, phase, iters>>

WarmStep(raw, s0) == phase = "warm" /\ inphase < cfg.lstarts /\ OffStep(raw, s0)
EndWarm == /\ phase = "warm" /\ inphase = cfg.lstarts
           /\ phase' = "run" /\ inphase' = 0 /\ UNCHANGED <<cfg, es, ps, ring, hist, iters>>
RunStep(raw, s0) == phase = "run" /\ inphase < cfg.nsteps /\ OffStep(raw, s0)
EndIter == /\ phase = "run" /\ inphase = cfg.nsteps
           /\ iters' = iters + 1 /\ inphase' = 0 /\ UNCHANGED <<cfg, es, ps, ring, hist, phase>>

(* ------------------------------ declarative properties (C05) ------------------------------ *)
\* the ring holds exactly the most recent true transitions
StoredIsWhatHappened == Ops!RingIsRecent(ring, [i \in 1..Len(hist) |-> hist[i].row], Cap)
TimeoutIffTruncatedOnly == \A i \in 1..Len(hist) : hist[i].row.timeout = (hist[i].trunc /\ ~hist[i].term)
DoneIsTermOrTrunc == \A i \in 1..Len(hist) : hist[i].row.done = (hist[i].term \/ hist[i].trunc)
\* warm-up stores exactly learning_starts transitions; every iteration adds num_steps
WarmUpCount == /\ phase = "run" => ring.pos = cfg.lstarts + iters * cfg.nsteps + inphase
               /\ phase = "warm" => ring.pos = inphase /\ iters = 0
\* the environment was never driven with an out-of-bounds action when the collector clips a (two-sided) bounded box; with a
\* one-sided declared box [lo, INF) values above the base grid are inside the declared space and reach the environment
EnvSawClipped == (OuterA.kind = "box" /\ OuterA.lo > -M!INF /\ OuterA.hi < M!INF /\ M!Depth = 0) =>
                    \A i \in 1..Len(hist) : hist[i].idx # cfg.nA + 1
\* restart after done
RestartAfterDone == \A i \in 1..Len(hist) :
                       hist[i].row.done => IF i < Len(hist) THEN hist[i + 1].row.pstate = 0
                                           ELSE ps = 0 /\ M!IsInitialState(es)
=============================================================================
