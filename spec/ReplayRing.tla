----------------------------- MODULE ReplayRing -----------------------------
(***************************************************************************)
(* lerax.buffer.ReplayBuffer (src/lerax/buffer/replay.py): one ring per    *)
(* environment, stacked; `add' writes one whole row at position % size and *)
(* increments position; `sample' flattens the stacked rings env-major,     *)
(* masks slots >= min(position, size) per ring and draws without           *)
(* replacement.                                                            *)
(*                                                                         *)
(*   cfg.cap   capacity of every ring        cfg.N   number of rings       *)
(*   rings[e]  [slots |-> function 0..cap-1 -> row, pos |-> insertions]    *)
(*   hist[e]   history variable: every row ever inserted into ring e       *)
(* A row is one value (all fields of a transition move together); Empty    *)
(* stands for the content of a never-written slot.                         *)
(***************************************************************************)
EXTENDS Integers, Sequences, FiniteSets

VARIABLES cfg, rings, hist
vars == <<cfg, rings, hist>>
Ops == INSTANCE RingOps

Min2(a, b) == IF a < b THEN a ELSE b
Envs == 1..cfg.N
Stored(e) == Min2(rings[e].pos, cfg.cap)                 \* current_size

Init(c, empty) ==
  /\ cfg = c
  /\ rings = [e \in 1..c.N |-> Ops!EmptyRing(c.cap, empty)]
  /\ hist = [e \in 1..c.N |-> <<>>]

\* implementation shape: idx = position % size; position + 1
Add(e, row) ==
  /\ rings' = [rings EXCEPT ![e] = Ops!RingAdd(@, row, cfg.cap)]
  /\ hist' = [hist EXCEPT ![e] = Append(@, row)]
  /\ UNCHANGED cfg

\* env-major flattening of the stacked rings: flat index f <-> (ring f \div cap + 1, slot f % cap)
FlatValid == {(e - 1) * cfg.cap + i : e \in Envs, i \in 0..(cfg.cap - 1)} \cap
             {f \in 0..(cfg.N * cfg.cap - 1) : f % cfg.cap < Stored(f \div cfg.cap + 1)}
RowAt(f) == rings[f \div cfg.cap + 1].slots[f % cfg.cap]
TotalStored == Cardinality(FlatValid)

\* a legal outcome of sample(B): B distinct valid flat indices (any order)
IsSample(B, picked) == /\ Len(picked) = B
                       /\ \A k \in 1..B : picked[k] \in FlatValid
                       /\ \A j, k \in 1..B : j # k => picked[j] # picked[k]

(* ------------------------------ declarative properties (C06) ------------------------------ *)
\* the ring holds exactly the most recent min(n, C) insertions, each intact, at the position it was written to
Recent ==
  \A e \in Envs :
     LET n == Len(hist[e]) IN
     /\ rings[e].pos = n
     /\ \A k \in 1..Min2(n, cfg.cap) : rings[e].slots[(n - k) % cfg.cap] = hist[e][n - k + 1]

\* as multisets: stored rows = the last min(n, C) insertions (no loss, no duplication)
RecentBag ==
  \A e \in Envs :
     LET n == Len(hist[e]) m == Min2(n, cfg.cap) IN
     \A r \in {hist[e][j] : j \in 1..n} \cup {rings[e].slots[i] : i \in 0..(m - 1)} :
        Cardinality({i \in 0..(m - 1) : rings[e].slots[i] = r}) =
        Cardinality({j \in (n - m + 1)..n : hist[e][j] = r})

\* every valid flat index denotes a row that was inserted into *that* ring and is among its most recent ones
ValidAreStored ==
  \A f \in FlatValid :
     LET e == f \div cfg.cap + 1 n == Len(hist[e]) IN
     \E j \in (n - Min2(n, cfg.cap) + 1)..n : hist[e][j] = RowAt(f)
=============================================================================
