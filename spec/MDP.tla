------------------------------- MODULE MDP -------------------------------
(***************************************************************************)
(* A finite MDP given by tables, under a stack of lerax wrappers.          *)
(*                                                                         *)
(* This module contains operators only.  `cfg' is a state variable of the  *)
(* instantiating module that is fixed at Init (a CONSTANT could not be     *)
(* instantiated per trace).  The same record layout is written by the      *)
(* Python harness (lvf/tables.py) which builds the *real* lerax objects    *)
(* from it: TableEnv (an AbstractEnv) wrapped in the real wrapper classes. *)
(*                                                                         *)
(*   cfg.nS, cfg.nA       proper states 1..nS, proper actions 1..nA;       *)
(*                        state nS+1 / action index nA+1 are the *poison*  *)
(*                        rows taken by an action outside the base         *)
(*                        environment's action space                       *)
(*   cfg.T[s][k]          successor              cfg.R[s][k][s2]  reward   *)
(*   cfg.Term[s], cfg.ITrunc[s]   terminal / inner truncation predicates   *)
(*   cfg.Init             sequence of possible initial states              *)
(*   cfg.Obs[s]           observation (code for "disc", quarter units for  *)
(*                        "box")                                           *)
(*   cfg.hasMask, cfg.Mask[s][k]  action mask (discrete actions only)      *)
(*   cfg.akind, alo, ahi, astep   base action space: "disc" -> 0..nA-1,    *)
(*                        "box" -> grid alo, alo+astep, .., ahi (quarter   *)
(*                        units); everything else is poison                *)
(*   cfg.okind, olo, ohi, nO      base observation space                   *)
(*   cfg.stack            wrappers, innermost first; uniform records       *)
(*                        [kind, n, lo, hi, m, c, tab]                     *)
(*                                                                         *)
(* All real numbers are integers in quarter units (actions, box            *)
(* observations) or plain integers (rewards).  INF stands for +infinity.   *)
(***************************************************************************)
EXTENDS Integers, Sequences, FiniteSets

VARIABLE cfg

INF == 1000000
Min2(a, b) == IF a < b THEN a ELSE b
Max2(a, b) == IF a > b THEN a ELSE b
ClipTo(x, lo, hi) == Max2(lo, Min2(x, hi))

Depth == Len(cfg.stack)
W(i) == cfg.stack[i]
IsTL(i) == W(i).kind = "TimeLimit"
InitSet == {cfg.Init[i] : i \in 1..Len(cfg.Init)}
Poison == cfg.nS + 1

(* ---------------- advertised spaces at stack level i (0 = base environment) -------------- *)
RECURSIVE ASpace(_)
ASpace(i) ==
  IF i = 0 THEN [kind |-> cfg.akind, lo |-> cfg.alo,
                 \* "aopen": the declared base action space is bounded below only (the action grid still ends at ahi)
                 hi |-> IF "aopen" \in DOMAIN cfg /\ cfg.aopen THEN INF ELSE cfg.ahi]
  ELSE LET in == ASpace(i - 1) w == W(i) IN
       CASE w.kind = "ClipAction"      -> [kind |-> "box", lo |-> -INF, hi |-> INF]
         [] w.kind = "RescaleAction"   -> [kind |-> "box", lo |-> w.lo, hi |-> w.hi]
         [] w.kind = "TransformAction" -> IF in.kind = "disc" THEN in
                                          ELSE [kind |-> "box", lo |-> in.lo - w.c, hi |-> in.hi - w.c]
         [] OTHER -> in

RECURSIVE OSpace(_)
OSpace(i) ==
  IF i = 0 THEN [kind |-> cfg.okind, lo |-> cfg.olo, hi |-> cfg.ohi, n |-> cfg.nO]
  ELSE LET in == OSpace(i - 1) w == W(i) IN
       CASE w.kind = "RescaleObservation"   -> [in EXCEPT !.lo = w.lo, !.hi = w.hi]
         [] w.kind = "FlattenObservation"   -> [kind |-> "box", lo |-> -INF, hi |-> INF, n |-> in.n]
         [] w.kind = "TransformObservation" -> IF in.kind = "disc" THEN [in EXCEPT !.n = w.n]
                                               ELSE [in EXCEPT !.lo = in.lo + w.c, !.hi = in.hi + w.c]
         [] OTHER -> in   \* ClipObservation advertises the inner space

(* ---------------- the declared change of each wrapper ---------------- *)
\* action seen one level further in
ActF(i, a) ==
  LET in == ASpace(i - 1) w == W(i) IN
  CASE w.kind = "ClipAction"      -> ClipTo(a, in.lo, in.hi)
    [] w.kind = "RescaleAction"   -> in.lo + ((a - w.lo) * (in.hi - in.lo)) \div (w.hi - w.lo)
    [] w.kind = "TransformAction" -> IF in.kind = "disc" THEN w.tab[a + 1] ELSE a + w.c
    [] OTHER -> a

RECURSIVE ActDown(_, _)
ActDown(i, a) == IF i = 0 THEN a ELSE ActDown(i - 1, ActF(i, a))

\* index into the tables of the action that reaches the base environment
BaseIdx(av) ==
  IF cfg.akind = "disc" THEN (IF av >= 0 /\ av < cfg.nA THEN av + 1 ELSE cfg.nA + 1)
  ELSE IF av < cfg.alo \/ av > cfg.ahi \/ (av - cfg.alo) % cfg.astep # 0 THEN cfg.nA + 1
       ELSE (av - cfg.alo) \div cfg.astep + 1

\* observation seen one level further out
ObsF(i, o) ==
  LET in == OSpace(i - 1) w == W(i) IN
  CASE w.kind = "ClipObservation"      -> ClipTo(o, in.lo, in.hi)
    [] w.kind = "RescaleObservation"   -> w.lo + ((o - in.lo) * (w.hi - w.lo)) \div (in.hi - in.lo)
    [] w.kind = "FlattenObservation"   -> IF in.kind = "disc" THEN 4 * o ELSE o
    [] w.kind = "TransformObservation" -> IF in.kind = "disc" THEN w.tab[o + 1] ELSE o + w.c
    [] OTHER -> o

RECURSIVE ObsUp(_, _)
ObsUp(i, o) == IF i = 0 THEN o ELSE ObsF(i, ObsUp(i - 1, o))

RewF(i, r) ==
  LET w == W(i) IN
  CASE w.kind = "ClipReward"      -> ClipTo(r, w.lo, w.hi)
    [] w.kind = "TransformReward" -> w.m * r + w.c
    [] OTHER -> r

RECURSIVE RewUp(_, _)
RewUp(i, r) == IF i = 0 THEN r ELSE RewF(i, RewUp(i - 1, r))

(* remainder-freeness of every division above (checked as an invariant by the MC modules) *)
ExactStack ==
  \A i \in 1..Depth :
     /\ W(i).kind = "RescaleAction" =>
           LET in == ASpace(i - 1) IN in.lo > -INF /\ in.hi < INF /\ W(i).hi > W(i).lo
     /\ W(i).kind = "RescaleObservation" =>
           LET in == OSpace(i - 1) IN in.lo > -INF /\ in.hi < INF /\ in.hi > in.lo

(* ---------------- functional components of the wrapped environment ---------------- *)
\* wrapped state: inner table state + one counter per stack position (0 where not a TimeLimit)
WInitial(s0) == [s |-> s0, cnt |-> [i \in 1..Depth |-> 0]]

WIdx(a) == BaseIdx(ActDown(Depth, a))

WTransition(ws, a) ==
  [s   |-> cfg.T[ws.s][WIdx(a)],
   cnt |-> [i \in 1..Depth |-> IF IsTL(i) THEN ws.cnt[i] + 1 ELSE ws.cnt[i]]]

WReward(ws, a, ws2) == RewUp(Depth, cfg.R[ws.s][WIdx(a)][ws2.s])
WTerminal(ws) == cfg.Term[ws.s]
WTruncate(ws) == cfg.ITrunc[ws.s] \/ \E i \in 1..Depth : IsTL(i) /\ ws.cnt[i] >= W(i).n
WObs(ws) == ObsUp(Depth, cfg.Obs[ws.s])
WMask(ws) == IF cfg.hasMask THEN cfg.Mask[ws.s] ELSE <<>>

\* everything one application of the Gym-style step derives from (state, action)
StepOut(ws, a) ==
  LET nx == WTransition(ws, a) IN
  [nx |-> nx, rew |-> WReward(ws, a, nx), term |-> WTerminal(nx), trunc |-> WTruncate(nx)]

\* the smallest time limit in the stack (INF if none): declarative reading of TimeLimit
TLs == {i \in 1..Depth : IsTL(i)}
MinLimit == IF TLs = {} THEN INF
            ELSE CHOOSE n \in {W(i).n : i \in TLs} : \A j \in TLs : n <= W(j).n

IsInitialState(ws) == ws.s \in InitSet /\ \A i \in 1..Depth : ws.cnt[i] = 0
=============================================================================
