------------------------------- MODULE Spaces -------------------------------
(***************************************************************************)
(* lerax spaces (C14) as terms.                                            *)
(*                                                                         *)
(* Space term  [k, n, shape, lo, hi, nvec, subs, keys]  (uniform fields):  *)
(*   k = "Discrete"      n                                                 *)
(*   k = "Box"           shape, lo, hi  (scalar bounds, broadcast)         *)
(*   k = "MultiBinary"   shape                                             *)
(*   k = "MultiDiscrete" nvec                                              *)
(*   k = "Tuple"         subs                                              *)
(*   k = "Dict"          keys, subs  (ordered)                             *)
(* Value term  [k, shape, vals, items, keys]:                              *)
(*   k = "arr"   an array of the given shape, elements row-major in `vals' *)
(*   k = "tup"   items          k = "dict"  keys, items                    *)
(*   k = "foreign"  anything that is not an array / tuple / ordered dict   *)
(* Scalars are integers in HALF units (so 1.5 = 3) with the tokens NaN,    *)
(* PInf, NInf.  Membership is written from the property text: right shape, *)
(* integral where required, inclusive bounds, 0 <= x < n; NaN, wrong       *)
(* shapes and foreign types rejected.                                      *)
(***************************************************************************)
EXTENDS Integers, Sequences, FiniteSets

NaN == 99999
PInf == 100000
NInf == -100000
IsNumber(x) == x # NaN
IsFinite(x) == x # NaN /\ x # PInf /\ x # NInf
IsIntegral(x) == IsFinite(x) /\ x % 2 = 0
RECURSIVE Prod(_, _)
Prod(s, i) == IF i = 0 THEN 1 ELSE s[i] * Prod(s, i - 1)
Size(shape) == Prod(shape, Len(shape))

IsArr(v, shape) == v.k = "arr" /\ v.shape = shape /\ Len(v.vals) = Size(shape)

RECURSIVE Contains(_, _)
Contains(sp, v) ==
  CASE sp.k = "Discrete" ->
         /\ IsArr(v, <<>>)
         /\ IsIntegral(v.vals[1]) /\ v.vals[1] >= 0 /\ v.vals[1] < 2 * sp.n
    [] sp.k = "Box" ->
         /\ IsArr(v, sp.shape)
         /\ \A i \in 1..Len(v.vals) : IsNumber(v.vals[i]) /\ v.vals[i] >= sp.lo /\ v.vals[i] <= sp.hi
    [] sp.k = "MultiBinary" ->
         /\ IsArr(v, sp.shape)
         /\ \A i \in 1..Len(v.vals) : v.vals[i] \in {0, 2}
    [] sp.k = "MultiDiscrete" ->
         /\ IsArr(v, <<Len(sp.nvec)>>)
         /\ \A i \in 1..Len(v.vals) : IsIntegral(v.vals[i]) /\ v.vals[i] >= 0 /\ v.vals[i] < 2 * sp.nvec[i]
    [] sp.k = "Tuple" ->
         /\ v.k = "tup" /\ Len(v.items) = Len(sp.subs)
         /\ \A i \in 1..Len(sp.subs) : Contains(sp.subs[i], v.items[i])
    [] sp.k = "Dict" ->
         /\ v.k = "dict" /\ v.keys = sp.keys
         /\ \A i \in 1..Len(sp.subs) : Contains(sp.subs[i], v.items[i])
    [] OTHER -> FALSE

RECURSIVE FlatSize(_)
FlatSize(sp) ==
  CASE sp.k = "Discrete" -> 1
    [] sp.k = "Box" -> Size(sp.shape)
    [] sp.k = "MultiBinary" -> Size(sp.shape)
    [] sp.k = "MultiDiscrete" -> Len(sp.nvec)
    [] OTHER -> LET F[i \in 0..Len(sp.subs)] == IF i = 0 THEN 0 ELSE F[i - 1] + FlatSize(sp.subs[i]) IN F[Len(sp.subs)]

\* flattening a member: the concatenation of its array elements, depth first
RECURSIVE Flatten(_)
Flatten(v) ==
  IF v.k = "arr" THEN v.vals
  ELSE LET F[i \in 0..Len(v.items)] == IF i = 0 THEN <<>> ELSE F[i - 1] \o Flatten(v.items[i]) IN F[Len(v.items)]

\* A dictionary value is a MAPPING: the implementation looks its entries up by key, so a member may list its keys in any
\* order, and the flat vector follows the SPACE's key order (two different members can then never flatten alike).
Item(v, key) == v.items[CHOOSE i \in 1..Len(v.keys) : v.keys[i] = key]
SameKeys(sp, v) == /\ Len(v.keys) = Len(sp.keys) /\ Len(v.items) = Len(v.keys)
                   /\ {v.keys[i] : i \in 1..Len(v.keys)} = {sp.keys[i] : i \in 1..Len(sp.keys)}
                   /\ Cardinality({v.keys[i] : i \in 1..Len(v.keys)}) = Len(v.keys)
RECURSIVE FlattenIn(_, _)
FlattenIn(sp, v) ==
  IF v.k = "arr" THEN v.vals
  ELSE IF sp.k = "Dict"
    THEN LET F[i \in 0..Len(sp.keys)] == IF i = 0 THEN <<>> ELSE F[i - 1] \o FlattenIn(sp.subs[i], Item(v, sp.keys[i])) IN F[Len(sp.keys)]
    ELSE LET F[i \in 0..Len(v.items)] == IF i = 0 THEN <<>> ELSE F[i - 1] \o FlattenIn(sp.subs[i], v.items[i]) IN F[Len(v.items)]
\* well-formed for FlattenIn: the structure of v follows sp up to the order of dictionary keys
RECURSIVE Shaped(_, _)
Shaped(sp, v) ==
  CASE sp.k = "Tuple" -> v.k = "tup" /\ Len(v.items) = Len(sp.subs) /\ \A i \in 1..Len(sp.subs) : Shaped(sp.subs[i], v.items[i])
    [] sp.k = "Dict" -> v.k = "dict" /\ SameKeys(sp, v) /\ \A i \in 1..Len(sp.keys) : Shaped(sp.subs[i], Item(v, sp.keys[i]))
    [] OTHER -> v.k = "arr"

\* equality of spaces = equality of structure and parameters = equality of terms
Eq(a, b) == a = b

\* a Discrete mask (sequence of booleans) is honoured
MaskAllows(m, v) == v.k = "arr" /\ v.shape = <<>> /\ IsIntegral(v.vals[1]) /\ v.vals[1] \div 2 + 1 \in 1..Len(m) /\ m[v.vals[1] \div 2 + 1]
=============================================================================
