----------------------------- MODULE Minibatch -----------------------------
(***************************************************************************)
(* Epoch / minibatch structure of lerax's on-policy training (C09):        *)
(*   buffer.flatten_axes()         (E, S) -> N = E*S samples               *)
(*   batch_indices(B, key)         a permutation of 0..N-1, trimmed to     *)
(*                                 N - N % B entries, reshaped to rows of B *)
(*   gather(row)                   one minibatch                           *)
(*   PPO.train                     num_epochs epochs, fresh key each       *)
(* Samples are the tags 1..N.                                              *)
(***************************************************************************)
EXTENDS Integers, Sequences, FiniteSets

VARIABLES cfg,      \* [E, S, B, epochs]
          epoch,    \* epochs started
          rows,     \* index matrix of the current epoch: sequence of rows (sequences of tags)
          next,     \* next row to consume
          used,     \* tags consumed in the current epoch (a sequence: duplicates would show)
          visits    \* history: tag -> number of minibatches it appeared in over the whole update
vars == <<cfg, epoch, rows, next, used, visits>>

N == cfg.E * cfg.S
Tags == 1..N
NumRows == N \div cfg.B
\* env-major flattening of the (environment, step) axes
Flat(e, s) == (e - 1) * cfg.S + s
IsPerm(p) == Len(p) = N /\ {p[i] : i \in 1..N} = Tags

Init(c) == cfg = c /\ epoch = 0 /\ rows = <<>> /\ next = 1 /\ used = <<>> /\ visits = [t \in 1..(c.E * c.S) |-> 0]

\* implementation shape: indices[:total - total % B].reshape(-1, B)
RowsOf(p) == [r \in 1..NumRows |-> [j \in 1..cfg.B |-> p[(r - 1) * cfg.B + j]]]

StartEpoch(p) ==
  /\ epoch < cfg.epochs /\ next = Len(rows) + 1
  /\ IsPerm(p)
  /\ rows' = RowsOf(p) /\ next' = 1 /\ used' = <<>> /\ epoch' = epoch + 1
  /\ UNCHANGED <<cfg, visits>>

Consume ==
  /\ next <= Len(rows)
  /\ used' = used \o rows[next]
  /\ visits' = [t \in Tags |-> visits[t] + Cardinality({j \in 1..cfg.B : rows[next][j] = t})]
  /\ next' = next + 1
  /\ UNCHANGED <<cfg, epoch, rows>>

(* ------------------------------ declarative properties ------------------------------ *)
AtMostOncePerEpoch == \A i, j \in 1..Len(used) : i # j => used[i] # used[j]
EpochDone == epoch > 0 /\ next = Len(rows) + 1
UsedCount == EpochDone => Len(used) = (N \div cfg.B) * cfg.B
DroppedFewerThanB == EpochDone => N - Len(used) < cfg.B /\ N - Len(used) >= 0
FlattenBijective == /\ \A e1, e2 \in 1..cfg.E, s1, s2 \in 1..cfg.S : Flat(e1, s1) = Flat(e2, s2) => (e1 = e2 /\ s1 = s2)
                    /\ {Flat(e, s) : e \in 1..cfg.E, s \in 1..cfg.S} = Tags
\* every epoch visits the data once: after k complete epochs every tag was seen at most k times and the total is k * used-per-epoch
VisitsBounded == \A t \in Tags : visits[t] <= epoch
VisitTotal == EpochDone => (LET Sum[t \in 0..N] == IF t = 0 THEN 0 ELSE Sum[t - 1] + visits[t] IN Sum[N]) = epoch * (N \div cfg.B) * cfg.B
=============================================================================
